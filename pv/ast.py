"""Description model.

The model *is* the JSON shape `pdlc --output-format json` prints for a parsed file (with
`loc` members optional), so corpus files enter through pdlc's json backend and generator
output can be compared member by member with what the parser produced (C12).

Only plain dicts / lists / ints / strings; helpers below build and query them.
"""
from __future__ import annotations

import copy

LE = "little_endian"
BE = "big_endian"


# ---------------------------------------------------------------- constructors
def file(endianness, decls):
    return {"endianness": {"kind": "endianness_declaration", "value": endianness},
            "declarations": list(decls)}


def enum(id, width, tags):
    return {"kind": "enum_declaration", "id": id, "tags": list(tags), "width": width}


def tag(id, value):
    return {"kind": "tag", "id": id, "value": value}


def tag_range(id, start, end, tags=()):
    return {"kind": "tag", "id": id, "range": {"start": start, "end": end}, "tags": list(tags)}


def tag_other(id):
    return {"kind": "tag", "id": id}


def packet(id, fields, parent_id=None, constraints=()):
    return {"kind": "packet_declaration", "id": id, "constraints": list(constraints),
            "fields": list(fields), "parent_id": parent_id}


def struct(id, fields, parent_id=None, constraints=()):
    return {"kind": "struct_declaration", "id": id, "constraints": list(constraints),
            "fields": list(fields), "parent_id": parent_id}


def group(id, fields):
    return {"kind": "group_declaration", "id": id, "fields": list(fields)}


def custom_field(id, width, function=None):
    return {"kind": "custom_field_declaration", "id": id, "width": width,
            "function": function or id}


def checksum(id, width, function=None):
    return {"kind": "checksum_declaration", "id": id, "function": function or id, "width": width}


def constraint(id, value=None, tag_id=None):
    return {"kind": "constraint", "id": id, "value": value, "tag_id": tag_id}


def _f(kind, cond=None, **kw):
    d = {"kind": kind}
    d.update(kw)
    d["cond"] = cond
    return d


def scalar(id, width, cond=None):
    return _f("scalar_field", cond, id=id, width=width)


def typedef(id, type_id, cond=None):
    return _f("typedef_field", cond, id=id, type_id=type_id)


def array(id, width=None, type_id=None, size=None, size_modifier=None):
    return _f("array_field", None, id=id, width=width, type_id=type_id,
              size_modifier=size_modifier, size=size)


def size_f(field_id, width):
    return _f("size_field", None, field_id=field_id, width=width)


def count_f(field_id, width):
    return _f("count_field", None, field_id=field_id, width=width)


def elementsize_f(field_id, width):
    return _f("elementsize_field", None, field_id=field_id, width=width)


def payload(size_modifier=None):
    return _f("payload_field", None, size_modifier=size_modifier)


def body():
    return _f("body_field", None)


def fixed_scalar(value, width):
    return _f("fixed_field", None, width=width, value=value)


def fixed_enum(tag_id, enum_id):
    return _f("fixed_field", None, enum_id=enum_id, tag_id=tag_id)


def reserved(width):
    return _f("reserved_field", None, width=width)


def padding(size):
    return _f("padding_field", None, size=size)


def group_f(group_id, constraints=()):
    return _f("group_field", None, group_id=group_id, constraints=list(constraints))


def checksum_start(field_id):
    return _f("checksum_field", None, field_id=field_id)


# ---------------------------------------------------------------- queries
def strip_loc(x):
    """Deep copy without `loc`, `comments`, `version`, `file` members."""
    if isinstance(x, dict):
        return {k: strip_loc(v) for k, v in x.items()
                if k not in ("loc", "comments", "version", "file")}
    if isinstance(x, list):
        return [strip_loc(v) for v in x]
    return x


def endianness(f):
    return f["endianness"]["value"]


def with_endianness(f, e):
    g = copy.deepcopy(f)
    g["endianness"]["value"] = e
    return g


def field_id(fl):
    if fl["kind"] in ("scalar_field", "typedef_field", "array_field", "flag_field"):
        return fl["id"]
    return None


def is_fixed_enum(fl):
    return fl["kind"] == "fixed_field" and "enum_id" in fl


def tag_kind(t):
    if "range" in t:
        return "range"
    if "value" in t:
        return "value"
    return "other"


def decl_map(f):
    return {d["id"]: d for d in f["declarations"] if "id" in d}


def children_of(f, id):
    return [d for d in f["declarations"] if d.get("parent_id") == id]


def parents_of(dm, d):
    """Ancestors, nearest first."""
    out = []
    while d.get("parent_id") is not None and d["parent_id"] in dm:
        d = dm[d["parent_id"]]
        out.append(d)
        if len(out) > 64:
            break
    return out


def get_payload(d):
    for fl in d.get("fields", ()):
        if fl["kind"] in ("payload_field", "body_field"):
            return fl
    return None


def inline_groups(f):
    """Independent implementation of group inlining per doc/reference.md §Group:
    a group field expands to the group's fields; a scalar / enum-typedef field named
    by a constraint becomes a fixed field carrying the constrained value. Constraint
    lists nest (outer group use constraints apply to inner group uses as well).
    Group declarations disappear."""
    dm = decl_map(f)

    def expand(fields, cons):
        out = []
        for fl in fields:
            if fl["kind"] == "group_field":
                c2 = dict(cons)
                for c in fl["constraints"]:
                    c2[c["id"]] = c
                out.extend(expand(dm[fl["group_id"]]["fields"], c2))
            elif fl["kind"] == "scalar_field" and fl["id"] in cons:
                g = fixed_scalar(cons[fl["id"]]["value"], fl["width"])
                g["cond"] = copy.deepcopy(fl.get("cond"))
                out.append(g)
            elif fl["kind"] == "typedef_field" and fl["id"] in cons:
                g = fixed_enum(cons[fl["id"]]["tag_id"], fl["type_id"])
                g["cond"] = copy.deepcopy(fl.get("cond"))
                out.append(g)
            else:
                out.append(copy.deepcopy(fl))
        return out

    decls = []
    for d in f["declarations"]:
        if d["kind"] == "group_declaration":
            continue
        d2 = copy.deepcopy(d)
        if "fields" in d2:
            d2["fields"] = expand(d["fields"], {})
        decls.append(d2)
    g = {k: copy.deepcopy(v) for k, v in f.items() if k != "declarations"}
    g["declarations"] = decls
    return g
