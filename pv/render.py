"""Model -> PDL text, recording the byte span of every node written (C12 ground truth).

`render(file)` gives canonical text; `render(file, rng, fancy=True)` randomizes the concrete
syntax wherever the grammar of doc/reference.md (as implemented by the pest grammar) leaves
freedom: integer radix / digit case / leading zeros, trailing commas, separators made of
spaces, tabs, CR, LF, line comments and block comments.

Span paths:
  ("endianness",)                        ("decl", i)
  ("decl", i, "tag", j[, "tag", k])      ("decl", i, "constraint", j)
  ("decl", i, "field", j)                ("decl", i, "field", j, "cond")
  ("decl", i, "field", j, "constraint", k)
"""
from __future__ import annotations

import random


class Style:
    def __init__(self, rng=None, fancy=False, hex_upper_prefix=False, comments=True,
                 crlf=True, trailing_commas=True):
        self.rng = rng or random.Random(0)
        self.fancy = fancy
        self.hex_upper_prefix = hex_upper_prefix  # allow "0X" prefix
        self.comments = comments
        self.crlf = crlf
        self.trailing_commas = trailing_commas


_COMMENT_WORDS = ["x", "packet P { }", "enum", "0x10", "*", "/", "// nested", "é", "{", "}", "\"",
                  "_payload_", ",", "a : 8", "little_endian_packets"]


class Emitter:
    def __init__(self, style):
        self.st = style
        self.parts = []
        self.pos = 0
        self.spans = {}
        self.open = {}
        self.pending_begin = []
        self.last_end = 0
        self.last_tok = ""
        self.ints = []       # (start, end, value) of every integer literal written
        self.comments = []   # (start, end) of every comment written

    # -- raw output
    def _raw(self, s):
        self.parts.append(s)
        self.pos += len(s.encode("utf-8"))

    def sep(self, need_ws=False, newline=False, must_start_ws=False):
        """Write a separator. need_ws: at least one separator char; must_start_ws: the
        first char must be a WHITESPACE char (keywords)."""
        st = self.st
        if not st.fancy:
            if newline:
                self._raw("\n")
            elif need_ws or must_start_ws:
                self._raw(" ")
            return
        r = st.rng
        out = []
        n = r.choice([0, 0, 1, 1, 1, 2, 3]) if not (need_ws or must_start_ws) else r.choice([1, 1, 2, 3])
        for i in range(n):
            k = r.random()
            if k < 0.55 or (i == 0 and must_start_ws):
                ws = [" ", " ", "\n", "\t"]
                if st.crlf:
                    ws += ["\r\n", "\r"]
                out.append(("ws", r.choice(ws)))
            elif k < 0.8 and st.comments:
                body = " ".join(r.choice(_COMMENT_WORDS) for _ in range(r.randint(0, 3)))
                body = body.replace("*/", "* /")
                out.append(("c", "/*" + body + "*/"))
            elif st.comments:
                body = " ".join(r.choice(_COMMENT_WORDS) for _ in range(r.randint(0, 3)))
                out.append(("c", "//" + body + "\n"))
            else:
                out.append(("ws", " "))
        if newline and r.random() < 0.7:
            out.append(("ws", "\n"))
        for kind, s in out:
            if kind == "c":
                start = self.pos
                self._raw(s)
                end = self.pos - (1 if s.startswith("//") else 0)
                self.comments.append((start, end))
            else:
                self._raw(s)

    # -- tokens
    def tok(self, text, glue=False):
        """Write one token, separated from the previous one unless glue."""
        if self.parts and not glue:
            wordy = (self.last_tok[-1:].isalnum() or self.last_tok[-1:] == "_") and \
                    (text[:1].isalnum() or text[:1] == "_")
            # '..' after an integer: "1..2" is fine, but ". ." is not a token: keep '..' atomic
            self.sep(need_ws=wordy)
        start = self.pos
        for p in self.pending_begin:
            self.open[p] = start
        self.pending_begin = []
        self._raw(text)
        self.last_end = self.pos
        self.last_tok = text
        return start

    def keyword(self, text):
        """Declaration keyword: must be followed by one WHITESPACE char."""
        self.tok(text)
        self._force_ws = True

    def begin(self, path):
        self.pending_begin.append(path)

    def end(self, path):
        self.spans[path] = (self.open.pop(path), self.last_end)

    def integer(self, v):
        st = self.st
        if not st.fancy:
            s = str(v)
        else:
            r = st.rng
            k = r.random()
            if k < 0.45:
                s = str(v)
                if r.random() < 0.15:
                    s = "0" * r.randint(1, 3) + s
            else:
                h = "%x" % v
                c = r.random()
                if c < 0.3:
                    h = h.upper()
                elif c < 0.5:
                    h = "".join(ch.upper() if r.random() < 0.5 else ch for ch in h)
                if r.random() < 0.15:
                    h = "0" * r.randint(1, 3) + h
                pre = "0X" if (st.hex_upper_prefix and r.random() < 0.3) else "0x"
                s = pre + h
        start = self.tok(s)
        self.ints.append((start, self.pos, v))

    def text(self):
        return "".join(self.parts)


def _kw(em, text):
    em.tok(text)
    # keyword token is "kw" ~ WHITESPACE: exactly one ws char belongs to the token.
    if em.st.fancy:
        ws = [" ", "\n", "\t"] + (["\r"] if em.st.crlf else [])
        em._raw(em.st.rng.choice(ws))
    else:
        em._raw(" ")
    em.last_tok = " "


def _constraint(em, c, path):
    em.begin(path)
    em.tok(c["id"])
    em.tok("=")
    if c.get("tag_id") is not None:
        em.tok(c["tag_id"])
    else:
        em.integer(c["value"])
    em.end(path)


def _list(em, items, fn, trailing_ok, newline=False):
    for i, it in enumerate(items):
        if i:
            em.tok(",")
        if newline:
            em.sep(newline=True)
        fn(i, it)
    if items and trailing_ok and em.st.trailing_commas:
        if (em.st.fancy and em.st.rng.random() < 0.4) or (not em.st.fancy and newline):
            em.tok(",")


def _tag(em, t, path):
    em.begin(path)
    em.tok(t["id"])
    em.tok("=")
    if "range" in t:
        em.integer(t["range"]["start"])
        em.tok("..")
        em.integer(t["range"]["end"])
        if t.get("tags"):
            em.tok("{")
            _list(em, t["tags"], lambda k, u: _tag(em, u, path + ("tag", k)), True)
            em.tok("}")
    elif "value" in t:
        em.integer(t["value"])
    else:
        em.tok("..")
    em.end(path)


def _field(em, fl, path):
    em.begin(path)
    k = fl["kind"]
    if k == "scalar_field" or k == "flag_field":
        em.tok(fl["id"]); em.tok(":"); em.integer(fl.get("width", 1))
    elif k == "typedef_field":
        em.tok(fl["id"]); em.tok(":"); em.tok(fl["type_id"])
    elif k == "array_field":
        em.tok(fl["id"]); em.tok(":")
        if fl.get("width") is not None:
            em.integer(fl["width"])
        else:
            em.tok(fl["type_id"])
        em.tok("[")
        if fl.get("size") is not None:
            em.integer(fl["size"])
        elif fl.get("size_modifier") is not None:
            em.tok(fl["size_modifier"])
        em.tok("]")
    elif k in ("size_field", "count_field", "elementsize_field"):
        em.tok({"size_field": "_size_", "count_field": "_count_",
                "elementsize_field": "_elementsize_"}[k])
        em.tok("("); em.tok(fl["field_id"]); em.tok(")"); em.tok(":"); em.integer(fl["width"])
    elif k == "payload_field":
        em.tok("_payload_")
        if fl.get("size_modifier") is not None:
            em.tok(":"); em.tok("["); em.tok(fl["size_modifier"]); em.tok("]")
    elif k == "body_field":
        em.tok("_body_")
    elif k == "fixed_field":
        em.tok("_fixed_"); em.tok("=")
        if "enum_id" in fl:
            em.tok(fl["tag_id"]); em.tok(":"); em.tok(fl["enum_id"])
        else:
            em.integer(fl["value"]); em.tok(":"); em.integer(fl["width"])
    elif k == "reserved_field":
        em.tok("_reserved_"); em.tok(":"); em.integer(fl["width"])
    elif k == "padding_field":
        em.tok("_padding_"); em.tok("["); em.integer(fl["size"]); em.tok("]")
    elif k == "checksum_field":
        em.tok("_checksum_start_"); em.tok("("); em.tok(fl["field_id"]); em.tok(")")
    elif k == "group_field":
        em.tok(fl["group_id"])
        cs = fl.get("constraints") or []
        if cs or (em.st.fancy and em.st.rng.random() < 0.2):
            em.tok("{")
            _list(em, cs, lambda i, c: _constraint(em, c, path + ("constraint", i)), True)
            em.tok("}")
    else:
        raise ValueError("cannot render field kind %r" % k)
    if fl.get("cond") is not None:
        em.tok("if")
        _constraint(em, fl["cond"], path + ("cond",))
    em.end(path)


def _string(em, s):
    em.tok('"' + s + '"')


def _decl(em, d, i):
    path = ("decl", i)
    em.begin(path)
    k = d["kind"]
    if k == "enum_declaration":
        _kw(em, "enum"); em.tok(d["id"]); em.tok(":"); em.integer(d["width"]); em.tok("{")
        _list(em, d["tags"], lambda j, t: _tag(em, t, path + ("tag", j)), True, newline=True)
        em.sep(newline=True)
        em.tok("}")
    elif k in ("packet_declaration", "struct_declaration"):
        _kw(em, "packet" if k == "packet_declaration" else "struct")
        em.tok(d["id"])
        if d.get("parent_id") is not None:
            em.tok(":"); em.tok(d["parent_id"])
            if d.get("constraints"):
                em.tok("(")
                _list(em, d["constraints"],
                      lambda j, c: _constraint(em, c, path + ("constraint", j)), True)
                em.tok(")")
        em.tok("{")
        _list(em, d["fields"], lambda j, fl: _field(em, fl, path + ("field", j)), True, newline=True)
        em.sep(newline=True)
        em.tok("}")
    elif k == "group_declaration":
        _kw(em, "group"); em.tok(d["id"]); em.tok("{")
        _list(em, d["fields"], lambda j, fl: _field(em, fl, path + ("field", j)), True, newline=True)
        em.sep(newline=True)
        em.tok("}")
    elif k == "custom_field_declaration":
        _kw(em, "custom_field"); em.tok(d["id"])
        if d.get("width") is not None:
            em.tok(":"); em.integer(d["width"])
        _string(em, d["function"])
    elif k == "checksum_declaration":
        _kw(em, "checksum"); em.tok(d["id"]); em.tok(":"); em.integer(d["width"])
        _string(em, d["function"])
    else:
        raise ValueError("cannot render decl kind %r" % k)
    em.end(path)


def render(f, rng=None, fancy=False, **style_kw):
    """Return (text, emitter) — emitter.spans / .ints / .comments describe what was written."""
    em = Emitter(Style(rng, fancy, **style_kw))
    if fancy:
        em.sep()
    em.begin(("endianness",))
    em.tok({"little_endian": "little_endian_packets", "big_endian": "big_endian_packets"}
           [f["endianness"]["value"]], glue=True)
    em.end(("endianness",))
    # endianness_declaration = ${ kw ~ WHITESPACE }: exactly one ws char is part of the node
    if fancy:
        em._raw(em.st.rng.choice([" ", "\n", "\t"] + (["\r"] if em.st.crlf else [])))
    else:
        em._raw("\n")
    em.last_tok = " "
    for i, d in enumerate(f["declarations"]):
        em.sep(newline=True)
        _decl(em, d, i)
    em.sep(newline=True)
    if not fancy:
        em._raw("\n") if not em.text().endswith("\n") else None
    return em.text(), em


def to_pdl(f):
    return render(f)[0]
