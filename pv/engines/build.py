"""Builds of google/pdl itself (pdlc with the java feature, the in-process driver), always
from the current working tree of $VERIF_REPO (default /repo). cargo's own change detection
decides what is rebuilt; a file lock serializes concurrent checks."""
from __future__ import annotations

import fcntl
import hashlib
import os
import subprocess
import sys
import time

VERIF = os.path.dirname(os.path.dirname(os.path.dirname(os.path.abspath(__file__))))
REPO = os.environ.get("VERIF_REPO", "/repo")
WORK = os.environ.get("VERIF_WORK", os.path.join(VERIF, "work"))


def _repo_tag():
    # distinct scratch trees get distinct target dirs
    if os.path.abspath(REPO) == "/repo":
        return "repo"
    return "alt-" + hashlib.sha1(os.path.abspath(REPO).encode()).hexdigest()[:10]


TARGET = os.path.join(WORK, "target-" + _repo_tag())

ENV = dict(os.environ)
ENV.update({"CARGO_NET_OFFLINE": "true", "CARGO_TERM_COLOR": "never",
            "RUSTFLAGS": os.environ.get("VERIF_RUSTFLAGS", "-Awarnings")})


class BuildError(Exception):
    pass


class Lock:
    def __init__(self, name):
        os.makedirs(WORK, exist_ok=True)
        self.path = os.path.join(WORK, name + ".lock")

    def __enter__(self):
        self.f = open(self.path, "w")
        fcntl.flock(self.f, fcntl.LOCK_EX)
        return self

    def __exit__(self, *a):
        fcntl.flock(self.f, fcntl.LOCK_UN)
        self.f.close()


def log(msg):
    print("[build] " + msg, file=sys.stderr, flush=True)


def run(cmd, cwd=None, env=None, timeout=3600, check=True):
    t0 = time.time()
    p = subprocess.run(cmd, cwd=cwd, env=env or ENV, stdout=subprocess.PIPE,
                       stderr=subprocess.STDOUT, timeout=timeout)
    out = p.stdout.decode("utf-8", "replace")
    if check and p.returncode != 0:
        raise BuildError("command failed (%d): %s\n%s" % (p.returncode, " ".join(cmd), out[-6000:]))
    return p.returncode, out, time.time() - t0


_pdlc = None


def pdlc():
    """Path of pdlc built from the current tree (features: java)."""
    global _pdlc
    if _pdlc:
        return _pdlc
    with Lock("build-pdlc"):
        rc, out, dt = run(["cargo", "build", "--offline", "-q", "--bin", "pdlc", "--features", "java",
                           "--manifest-path", os.path.join(REPO, "pdl-compiler", "Cargo.toml"),
                           "--target-dir", TARGET])
        if dt > 2:
            log("pdlc built in %.1fs" % dt)
    _pdlc = os.path.join(TARGET, "debug", "pdlc")
    return _pdlc


_driver = None


def driver():
    """Path of the in-process compiler driver (rust/pdl-driver) linked against the tree."""
    global _driver
    if _driver:
        return _driver
    src = os.path.join(VERIF, "rust", "pdl-driver")
    # the driver crate names the repo by path through an env-expanded config: we generate
    # the Cargo.toml next to the sources in work/ so VERIF_REPO is honoured.
    gen = os.path.join(WORK, "driver-" + _repo_tag())
    os.makedirs(os.path.join(gen, "src"), exist_ok=True)
    with Lock("build-driver"):
        toml = open(os.path.join(src, "Cargo.toml.in")).read().replace("@REPO@", os.path.abspath(REPO))
        _write_if_changed(os.path.join(gen, "Cargo.toml"), toml)
        for fn in os.listdir(os.path.join(src, "src")):
            _write_if_changed(os.path.join(gen, "src", fn), open(os.path.join(src, "src", fn)).read())
        lock = os.path.join(gen, "Cargo.lock")
        if not os.path.exists(lock):
            _write_if_changed(lock, open(os.path.join(REPO, "Cargo.lock")).read())
        rc, out, dt = run(["cargo", "build", "--offline", "-q", "--release",
                           "--manifest-path", os.path.join(gen, "Cargo.toml"),
                           "--target-dir", TARGET])
        if dt > 2:
            log("pdl-driver built in %.1fs" % dt)
    _driver = os.path.join(TARGET, "release", "pdl-driver")
    return _driver


def _write_if_changed(path, text):
    try:
        if open(path).read() == text:
            return False
    except OSError:
        pass
    os.makedirs(os.path.dirname(path), exist_ok=True)
    with open(path, "w") as f:
        f.write(text)
    return True


def file_digest(path):
    h = hashlib.sha256()
    with open(path, "rb") as f:
        for b in iter(lambda: f.read(1 << 20), b""):
            h.update(b)
    return h.hexdigest()[:16]


def pdlc_run(args, input_path, timeout=60):
    """Run pdlc; returns (returncode, stdout bytes, stderr text)."""
    p = subprocess.run([pdlc()] + list(args) + [input_path], stdout=subprocess.PIPE,
                       stderr=subprocess.PIPE, timeout=timeout)
    return p.returncode, p.stdout, p.stderr.decode("utf-8", "replace")


def pdlc_text(text, fmt, extra=(), name="input.pdl", workdir=None):
    """Compile PDL text with the CLI; returns (rc, stdout str, stderr)."""
    workdir = workdir or os.path.join(WORK, "tmp")
    os.makedirs(workdir, exist_ok=True)
    path = os.path.join(workdir, "%d-%s" % (os.getpid(), name))
    with open(path, "w") as f:
        f.write(text)
    try:
        rc, out, err = pdlc_run(["--output-format", fmt] + list(extra), path)
    finally:
        os.unlink(path)
    return rc, out.decode("utf-8", "replace"), err
