"""E7 — generated Java under an exception monitor.

One `JavaHarness` = one description: the tree's Java backend output (`pdlc --output-format java`)
in a scratch package, plus a generated driver (`PvDriver`, `PvVals<n>`, and the static support
class from /verif/java/DriverSupport.java) compiled by one `javac` invocation and served as a
JSON-lines JVM process through `proc.LineProc`.

Values use the shape defined in pv/refmodel.py: scalars / enums are unsigned ints, arrays and
payloads are lists, structs are objects; a child's object has the unconstrained named fields of
its ancestors, its own, and `payload` when it declares a payload / body.

How the Java backend maps PDL onto Java (mirrors backends/java/test.rs, which is how the project
itself builds and inspects objects):

* scalar of width 1 -> boolean; width <= 8 byte, <= 16 short, <= 32 int, <= 64 long (the bit
  pattern is the unsigned value); `_size_` / `_count_` / fixed / reserved fields are not members;
* enum E of width w -> abstract class E; values are made with `E.from<T>(<T> value)` where <T> is
  the fitting integral type (Byte/Short/Int/Long) and read back with `to<T>()`; single tags are
  singletons (`E.A`), range and default tags are instances carrying the value;
* arrays -> Java arrays (`byte[]`, `short[]`, ..., `E[]`, `S[]`); payload -> `byte[]`;
* struct / packet without payload -> `final class Name` with `Name.Builder` (setters `set<Field>`),
  `Name.fromBytes(byte[])`, `toBytes()`, getters `get<Field>()`;
* declaration with `_payload_` -> abstract sealed class plus a concrete fallback child
  `Unknown<Name>` whose builder also has `setPayload(byte[])`; with `_body_` -> abstract class
  only (nothing to build, parsing throws when no child matches);
* child -> class extending the parent's class; its builder inherits the setters of the
  unconstrained ancestor members.
Identifiers: class = UpperCamel(id) (+ "_" when the id ends in "_"), member = lowerCamel(id),
accessors = get/set + UpperCamel(member), using the `heck` word-splitting rules (ported below).
"""
from __future__ import annotations

import json
import os
import re
import shutil
import subprocess
import time

from .. import ast as A
from . import build
from .proc import LineProc

SUPPORT_SRC = os.path.join(build.VERIF, "java", "DriverSupport.java")

# What `tests/run_java_generator_tests.sh` passes as --exclude-declaration for the canonical file.
CANONICAL_EXCLUDE = (
    "SizedCustomField", "UnsizedCustomField", "Checksum",
    "Packet_Body_Field_VariableSize", "Packet_Body_Field_UnknownSize",
    "Packet_Body_Field_UnknownSize_Terminal",
    "Packet_Checksum_Field_FromStart", "Packet_Checksum_Field_FromEnd",
    "Packet_Custom_Field_ConstantSize", "Packet_Custom_Field_VariableSize",
    "Packet_Array_Field_SizedElement_VariableSize_Padded",
    "Packet_Array_Field_UnsizedElement_VariableCount_Padded",
    "Packet_Array_Field_VariableElementSize_ConstantSize",
    "Packet_Array_Field_VariableElementSize_VariableSize",
    "Packet_Array_Field_VariableElementSize_VariableCount",
    "Packet_Array_Field_VariableElementSize_UnknownSize",
    "Packet_Optional_Scalar_Field", "Packet_Optional_Enum_Field", "Packet_Optional_Struct_Field",
    "AliasedChild_A", "AliasedChild_B",
    "Struct_Checksum_Field_FromStart_", "Struct_Checksum_Field_FromStart",
    "Struct_Checksum_Field_FromEnd_", "Struct_Checksum_Field_FromEnd",
    "Struct_Custom_Field_ConstantSize_", "Struct_Custom_Field_ConstantSize",
    "Struct_Custom_Field_VariableSize_", "Struct_Custom_Field_VariableSize",
    "Struct_Array_Field_SizedElement_VariableSize_Padded_",
    "Struct_Array_Field_SizedElement_VariableSize_Padded",
    "Struct_Array_Field_UnsizedElement_VariableCount_Padded_",
    "Struct_Array_Field_UnsizedElement_VariableCount_Padded",
    "Struct_Optional_Scalar_Field_", "Struct_Optional_Scalar_Field",
    "Struct_Optional_Enum_Field_", "Struct_Optional_Enum_Field",
    "Struct_Optional_Struct_Field_", "Struct_Optional_Struct_Field",
)


def script_excludes():
    """The exclude list read from the tree's own script (falls back to the pinned copy)."""
    p = os.path.join(build.REPO, "pdl-compiler", "tests", "run_java_generator_tests.sh")
    try:
        found = re.findall(r"--exclude-declaration\s+(\w+)", open(p).read())
    except OSError:
        found = []
    return tuple(found) or CANONICAL_EXCLUDE


JAVA_KEYWORDS = frozenset("""abstract assert boolean break byte case catch char class const continue
default do double else enum extends final finally float for goto if implements import instanceof int
interface long native new package private protected public return short static strictfp super switch
synchronized this throw throws transient try void volatile while true false null var record sealed
permits yield _""".split())


class JavaError(Exception):
    """Generation / javac failure; the message is the tool output.

    stage: 'generate' | 'javac'; panic: pdlc panicked (todo!/unwrap/expect) rather than
    diagnosing; files: basenames named by javac diagnostics; in_generated: at least one
    diagnostic is in a file the backend wrote (not in the driver)."""

    def __init__(self, msg, stage, panic=False, files=(), in_generated=None, returncode=None):
        super().__init__(msg)
        self.stage = stage
        self.panic = panic
        self.files = tuple(files)
        self.in_generated = in_generated
        self.returncode = returncode


# ---------------------------------------------------------------- heck (0.4, ASCII) port
def heck_words(s):
    out = []
    for word in re.split(r"[^A-Za-z0-9]", s):
        n = len(word)
        init = 0
        mode = 0  # 0 boundary, 1 lowercase, 2 uppercase
        i = 0
        while i < n:
            c = word[i]
            if i + 1 < n:
                nxt = word[i + 1]
                next_mode = 1 if c.islower() else 2 if c.isupper() else mode
                if next_mode == 1 and nxt.isupper():
                    out.append(word[init:i + 1])
                    init = i + 1
                    mode = 0
                elif mode == 2 and c.isupper() and nxt.islower():
                    out.append(word[init:i])
                    init = i
                    mode = 0
                else:
                    mode = next_mode
            else:
                out.append(word[init:])
            i += 1
    return out


def _cap(w):
    return w[:1].upper() + w[1:].lower()


def upper_camel(s):
    return "".join(_cap(w) for w in heck_words(s))


def lower_camel(s):
    ws = heck_words(s)
    return "".join(w.lower() if i == 0 else _cap(w) for i, w in enumerate(ws))


def class_name(id):
    return upper_camel(id) + ("_" if id.endswith("_") else "")


def member_name(id):
    return lower_camel(id)


def accessor_suffix(id):
    return upper_camel(lower_camel(id))


def integral(width):
    """(java type, Capitalized, bits) fitting a PDL width."""
    if width <= 8:
        return "byte", "Byte", 8
    if width <= 16:
        return "short", "Short", 16
    if width <= 32:
        return "int", "Int", 32
    if width <= 64:
        return "long", "Long", 64
    raise ValueError("width %d" % width)


class Unrepresentable(Exception):
    """A JSON value that no Java expression of the generated API can denote (harness-level)."""


def literal(width_bits, v):
    """Java literal of the integral type with `width_bits` backing bits holding bit pattern v."""
    if isinstance(v, bool) or not isinstance(v, int):
        raise Unrepresentable("not an integer: %r" % (v,))
    if v < 0 or v >= (1 << width_bits):
        raise Unrepresentable("%d does not fit the %d-bit Java type" % (v, width_bits))
    if width_bits == 8:
        return "(byte) 0x%x" % v
    if width_bits == 16:
        return "(short) 0x%x" % v
    if width_bits == 32:
        return "0x%x" % v
    return "0x%xL" % v


_ANSI = re.compile(r"\x1b\[[0-9;]*m")


# ---------------------------------------------------------------- description queries
class _Info:
    def __init__(self, file, exclude):
        f = A.inline_groups(file)
        ex = set(exclude)
        self.decls = [d for d in f["declarations"] if d.get("id") not in ex]
        self.dm = {d["id"]: d for d in self.decls if "id" in d}
        self.big = A.endianness(file) == A.BE

    def kind(self, id):
        d = self.dm.get(id)
        return d["kind"] if d else None

    def chain(self, d):
        return list(reversed(A.parents_of(self.dm, d))) + [d]

    def constraints(self, d):
        out = {}
        for x in reversed(self.chain(d)):
            for c in x.get("constraints", ()):
                out.setdefault(c["id"], c)
        return out

    def data_fields(self, d):
        """named unconstrained fields of the ancestors (root first) and of d."""
        cons = self.constraints(d)
        out = []
        for x in self.chain(d):
            for fl in x["fields"]:
                i = A.field_id(fl)
                if i is None or i in cons or fl["kind"] == "flag_field":
                    continue
                out.append(fl)
        return out

    def has_payload(self, d):
        return any(fl["kind"] == "payload_field" for fl in d["fields"])

    def has_body(self, d):
        return any(fl["kind"] == "body_field" for fl in d["fields"])

    def records(self):
        return [d for d in self.decls if d["kind"] in ("packet_declaration", "struct_declaration")]

    def enums(self):
        return [d for d in self.decls if d["kind"] == "enum_declaration"]

    def concrete_class(self, d):
        """Java class that can be instantiated for a value of declaration d, or None."""
        if self.has_payload(d):
            return "Unknown" + class_name(d["id"])
        if self.has_body(d):
            return None
        return class_name(d["id"])


# ---------------------------------------------------------------- Java source generation
class _ValueWriter:
    """Turns JSON values into Java expressions; bulky arrays go to auxiliary methods."""

    BULK = 192        # elements per auxiliary fill method / threshold for helpers
    HEXCHUNK = 30000  # characters per string constant (class-file limit is 65535 bytes)

    def __init__(self, info):
        self.info = info
        self.aux = []      # auxiliary method sources of the value being written
        self.naux = 0
        self.prefix = "x"

    def _hexparts(self, h):
        return ", ".join('"%s"' % h[i:i + self.HEXCHUNK] for i in range(0, len(h), self.HEXCHUNK)) or '""'

    def int_array(self, width, vals):
        jt, cap, bits = integral(width)
        for v in vals:
            literal(bits, v)  # range check
        if len(vals) <= self.BULK:
            return "new %s[]{%s}" % (jt, ", ".join(literal(bits, v) for v in vals))
        if bits == 8:
            return "PvSupport.unhex(%s)" % self._hexparts(bytes(vals).hex())
        return "PvSupport.%ss(%s)" % (jt, self._hexparts("".join("%016x" % v for v in vals)))

    def obj_array(self, cls, exprs, raw):
        if len(exprs) <= self.BULK:
            return "new %s[]{%s}" % (cls, ", ".join(exprs))
        # run-length groups keep `count overflow` sized arrays (65536+) cheap
        name = "%s_a%d" % (self.prefix, self.naux)
        self.naux += 1
        stmts = []
        i = 0
        n = len(exprs)
        while i < n:
            j = i
            while j + 1 < n and raw[j + 1] == raw[i]:
                j += 1
            if j - i >= 4:
                stmts.append("java.util.Arrays.fill(a, %d, %d, %s);" % (i, j + 1, exprs[i]))
                i = j + 1
            else:
                stmts.append("a[%d] = %s;" % (i, exprs[i]))
                i += 1
        calls = []
        for k in range(0, len(stmts), self.BULK):
            fn = "%s_f%d" % (name, k // self.BULK)
            self.aux.append("    static void %s(%s[] a) throws Throwable {\n        %s\n    }\n"
                            % (fn, cls, "\n        ".join(stmts[k:k + self.BULK])))
            calls.append("%s(a);" % fn)
        self.aux.append("    static %s[] %s() throws Throwable {\n        %s[] a = new %s[%d];\n        %s\n"
                        "        return a;\n    }\n" % (cls, name, cls, cls, n, "\n        ".join(calls)))
        return "%s()" % name

    def enum_expr(self, d, v):
        jt, cap, bits = integral(d["width"])
        return "%s.from%s(%s)" % (class_name(d["id"]), cap, literal(bits, v))

    def typed(self, type_id, v):
        d = self.info.dm.get(type_id)
        if d is None:
            raise Unrepresentable("type %s is not part of the description" % type_id)
        if d["kind"] == "enum_declaration":
            return self.enum_expr(d, v)
        if d["kind"] in ("struct_declaration", "packet_declaration"):
            return self.record(d, v)
        raise Unrepresentable("no Java value for %s %s" % (d["kind"], type_id))

    def field(self, fl, v):
        k = fl["kind"]
        if v is None:
            raise Unrepresentable("null for field %s" % A.field_id(fl))
        if k == "scalar_field":
            if fl["width"] == 1:
                if v in (0, 1) and not isinstance(v, bool):
                    return "true" if v == 1 else "false"
                raise Unrepresentable("%r is not a boolean" % (v,))
            return literal(integral(fl["width"])[2], v)
        if k == "typedef_field":
            return self.typed(fl["type_id"], v)
        if k == "array_field":
            if not isinstance(v, list):
                raise Unrepresentable("array value is not a list")
            if fl.get("width") is not None:
                return self.int_array(fl["width"], v)
            cls = class_name(fl["type_id"])
            return self.obj_array(cls, [self.typed(fl["type_id"], x) for x in v], v)
        raise Unrepresentable("no Java value for %s" % k)

    def record(self, d, v):
        if not isinstance(v, dict):
            raise Unrepresentable("%s value is not an object" % d["id"])
        cls = self.info.concrete_class(d)
        if cls is None:
            raise Unrepresentable("%s has a _body_: the backend emits no concrete class for it" % d["id"])
        fields = {A.field_id(fl): fl for fl in self.info.data_fields(d)}
        calls = []
        for key, x in v.items():
            if key == "payload" and (self.info.has_payload(d)):
                if not isinstance(x, list):
                    raise Unrepresentable("payload is not a list")
                calls.append(".setPayload(%s)" % self.int_array(8, x))
                continue
            fl = fields.get(key)
            if fl is None:
                raise Unrepresentable("%s has no settable member %s" % (d["id"], key))
            calls.append(".set%s(%s)" % (accessor_suffix(key), self.field(fl, x)))
        return "new %s.Builder()%s.build()" % (cls, "".join(calls))


def _javac(sources, outdir, argfile):
    """One javac run -> (returncode, trimmed output, seconds)."""
    with open(argfile, "w") as f:
        for p in sources:
            f.write('"%s"\n' % p.replace("\\", "\\\\"))
    cmd = ["javac", "-J-XX:+UseSerialGC", "-J-XX:TieredStopAtLevel=1", "-J-Xss16m", "-proc:none", "-nowarn",
           "-Xlint:none", "-Xmaxerrs", "200", "-encoding", "UTF-8", "-d", outdir, "@" + argfile]
    t0 = time.time()
    try:
        p = subprocess.run(cmd, stdout=subprocess.PIPE, stderr=subprocess.STDOUT, timeout=1800)
    except subprocess.TimeoutExpired:
        raise JavaError("javac timed out", "javac")
    out = p.stdout.decode("utf-8", "replace")
    # generated classes are single-line files: javac echoes the whole class per diagnostic
    out = "\n".join(l if len(l) <= 300 else l[:300] + " [...]" for l in out.splitlines() if l.strip() != "^")
    return p.returncode, out, time.time() - t0


def build_many(items, key="batch"):
    """items: [(JavaHarness, values)] (generate() is called where needed) -> {name: None | JavaError}.
    All descriptions are compiled by one javac run into one class directory (each has its own
    package); when that fails, the harnesses named by the diagnostics are rebuilt alone (so each
    gets its own error) and the remainder is compiled together again. About 0.1-0.2 s per
    description instead of 1-2 s."""
    res = {}
    live = []
    for h, values in items:
        try:
            live.append((h, h.write_sources(values)))
        except JavaError as e:
            res[h.name] = e
    outdir = os.path.join(build.WORK, "java", "_" + re.sub(r"\W", "_", key) + "_classes")
    for _ in range(4):
        if not live:
            break
        shutil.rmtree(outdir, ignore_errors=True)
        os.makedirs(outdir)
        rc, out, dt = _javac([p for _, src in live for p in src], outdir, outdir + ".txt")
        if rc == 0:
            for h, _ in live:
                h.classes = outdir
                h.built = True
                h.timings["javac"] = dt / len(live)
                res[h.name] = None
            return res
        named = set(re.findall(r"(\S+\.java):\d+: error", out))
        bad = [(h, src) for h, src in live if any(p.startswith(h.pkgdir + os.sep) for p in named)]
        if not bad:
            bad = live
        for h, src in bad:
            try:
                h.classes = os.path.join(h.dir, "classes")
                shutil.rmtree(h.classes, ignore_errors=True)
                os.makedirs(h.classes)
                rc1, out1, dt1 = _javac(src, h.classes, os.path.join(h.dir, "sources.txt"))
                h.timings["javac"] = dt1
                if rc1 != 0:
                    res[h.name] = h._javac_error(out1, rc1)
                else:
                    h.built = True
                    res[h.name] = None
            except JavaError as e:
                res[h.name] = e
        live = [(h, src) for h, src in live if h.name not in res]
    for h, _ in live:
        res[h.name] = JavaError("batch build did not converge", "javac")
    return res


class JavaHarness:
    VALS_PER_CLASS_BYTES = 150000

    def __init__(self, name, file, text, exclude=()):
        self.name = name
        self.file = file
        self.text = text
        self.exclude = tuple(exclude)
        self.info = _Info(file, self.exclude)
        self.dir = os.path.join(build.WORK, "java", build._repo_tag(), name)
        self.pkg = "pvj.h_" + re.sub(r"\W", "_", name)
        self.src = os.path.join(self.dir, "src")
        self.pkgdir = os.path.join(self.src, *self.pkg.split("."))
        self.classes = os.path.join(self.dir, "classes")
        self.timings = {}
        self.generated_files = []
        self.table = []       # [(type, i, k or None, skip reason or None)]
        self.proc = None
        self.timeout = 10.0
        self.built = False

    # ------------------------------------------------------------ generate
    def generate(self):
        self.close()
        shutil.rmtree(self.dir, ignore_errors=True)
        os.makedirs(self.src)
        pdl = os.path.join(self.dir, "input.pdl")
        with open(pdl, "w") as f:
            f.write(self.text)
        args = ["--output-format", "java", "--output-dir", self.src, "--java-package", self.pkg]
        for e in self.exclude:
            args += ["--exclude-declaration", e]
        t0 = time.time()
        try:
            rc, out, err = build.pdlc_run(args, pdl, timeout=120)
        except subprocess.TimeoutExpired:
            raise JavaError("pdlc timed out", "generate")
        self.timings["generate"] = time.time() - t0
        err = _ANSI.sub("", err)
        if rc != 0:
            raise JavaError(err[-6000:] or ("pdlc exited with %d" % rc), "generate",
                            panic="panicked at" in err, returncode=rc)
        self.generated_files = sorted(fn for fn in os.listdir(self.pkgdir) if fn.endswith(".java")) \
            if os.path.isdir(self.pkgdir) else []
        if not self.generated_files:
            raise JavaError("pdlc wrote no Java files\n" + err[-2000:], "generate", returncode=rc)
        return self.generated_files

    # ------------------------------------------------------------ driver source
    def _render_field(self, fl, get):
        """statement(s) appending the JSON of one member read through `get`."""
        k = fl["kind"]
        if k == "scalar_field":
            return "PvSupport.u(sb, %s);" % get
        if k == "typedef_field":
            if self.info.kind(fl["type_id"]) == "enum_declaration":
                return "re_%s(sb, %s);" % (self._ident(fl["type_id"]), get)
            return "render(%s, sb);" % get
        if k == "array_field":
            if fl.get("width") is not None:
                return "PvSupport.ua(sb, %s);" % get
            if self.info.kind(fl["type_id"]) == "enum_declaration":
                elem = "re_%s(sb, arr[i]);" % self._ident(fl["type_id"])
            else:
                elem = "render(arr[i], sb);"
            return ("{ var arr = %s; if (arr == null) sb.append(\"null\"); else { sb.append('['); "
                    "for (int i = 0; i < arr.length; i++) { if (i > 0) sb.append(','); %s } sb.append(']'); } }"
                    % (get, elem))
        return "sb.append(\"null\");"

    @staticmethod
    def _ident(id):
        return re.sub(r"\W", "_", id)

    def _driver_source(self):
        info = self.info
        L = []
        w = L.append
        w("package %s;\n" % self.pkg)
        w("import java.util.Map;\n")
        w("final class PvDriver {")
        w("    public static void main(String[] args) throws Exception { PvSupport.serve(PvDriver::handle); }\n")
        # parse dispatch
        w("    static Object parse(String t, byte[] b) throws Throwable {")
        w("        switch (t) {")
        for d in info.records():
            w("            case %s: return %s.fromBytes(b);" % (json.dumps(d["id"]), class_name(d["id"])))
        w("            default: throw new PvSupport.HarnessError(\"unknown type \" + t);")
        w("        }\n    }\n")
        # toBytes dispatch over the roots
        w("    static byte[] toBytes(Object o) throws Throwable {")
        for d in info.records():
            if d.get("parent_id") is None:
                w("        if (o instanceof %s x) return x.toBytes();" % class_name(d["id"]))
        w("        throw new PvSupport.HarnessError(\"no toBytes for \" + o.getClass().getName());")
        w("    }\n")
        # enum helpers
        w("    static void enumOp(String t, long v, StringBuilder sb) throws Throwable {")
        w("        switch (t) {")
        for d in info.enums():
            jt, cap, bits = integral(d["width"])
            cn = class_name(d["id"])
            w("            case %s: { %s e = %s.from%s((%s) v); sb.append(\"{\\\"ok\\\":\"); PvSupport.u(sb, e.to%s()); "
              "sb.append(\",\\\"class\\\":\"); PvSupport.jstr(sb, e.getClass().getSimpleName()); "
              "sb.append(\",\\\"str\\\":\"); PvSupport.jstr(sb, e.toString()); "
              "sb.append(\",\\\"self_equal\\\":\").append(e.equals(%s.from%s((%s) v)) && e.hashCode() == %s.from%s((%s) v).hashCode()); "
              "sb.append('}'); return; }"
              % (json.dumps(d["id"]), cn, cn, cap, jt, cap, cn, cap, jt, cn, cap, jt))
        w("            default: throw new PvSupport.HarnessError(\"unknown enum \" + t);")
        w("        }\n    }\n")
        for d in info.enums():
            jt, cap, bits = integral(d["width"])
            w("    static void re_%s(StringBuilder sb, %s e) { if (e == null) sb.append(\"null\"); "
              "else PvSupport.u(sb, e.to%s()); }" % (self._ident(d["id"]), class_name(d["id"]), cap))
        w("")
        # renderers
        concrete = []
        for d in info.records():
            cls = info.concrete_class(d)
            if cls is None:
                continue
            concrete.append(cls)
            w("    static void r_%s(%s x, StringBuilder sb) throws Throwable {" % (self._ident(cls), cls))
            w("        sb.append('{');")
            first = True
            for fl in info.data_fields(d):
                fid = A.field_id(fl)
                w("        sb.append(%s);" % json.dumps(("" if first else ",") + json.dumps(fid) + ":"))
                w("        " + self._render_field(fl, "x.get%s()" % accessor_suffix(fid)))
                first = False
            if info.has_payload(d):
                w("        sb.append(%s);" % json.dumps(("" if first else ",") + "\"payload\":"))
                w("        PvSupport.ua(sb, x.getPayload());")
            w("        sb.append('}');")
            w("    }")
        w("")
        w("    static void render(Object o, StringBuilder sb) throws Throwable {")
        w("        if (o == null) { sb.append(\"null\"); return; }")
        for cls in concrete:
            w("        if (o instanceof %s x) { r_%s(x, sb); return; }" % (cls, self._ident(cls)))
        w("        throw new PvSupport.HarnessError(\"no renderer for \" + o.getClass().getName());")
        w("    }\n")
        # value table
        w("    static Object value(int k) throws Throwable {")
        w("        switch (k) {")
        for cname, ks in self._vals_index:
            for k in ks:
                w("            case %d: return %s.v%d();" % (k, cname, k))
        w("            default: throw new PvSupport.HarnessError(\"unknown value \" + k);")
        w("        }\n    }\n")
        w(r'''    static void handle(Map<String, String> req, StringBuilder sb) throws Throwable {
        String op = req.get("op");
        if (op == null) throw new PvSupport.HarnessError("no op");
        switch (op) {
            case "ping":
                sb.append("{\"pong\":true}");
                return;
            case "parse": {
                Object o = parse(req.get("type"), PvSupport.unhex(req.get("hex")));
                sb.append("{\"ok\":");
                render(o, sb);
                sb.append(",\"class\":");
                PvSupport.jstr(sb, o == null ? null : o.getClass().getSimpleName());
                sb.append('}');
                return;
            }
            case "enum":
                enumOp(req.get("type"), PvSupport.num(req, "v"), sb);
                return;
            case "ser": {
                Object o;
                try {
                    o = value((int) PvSupport.num(req, "k"));
                } catch (PvSupport.HarnessError e) {
                    throw e;
                } catch (Throwable t) {
                    sb.setLength(0);
                    sb.append('{');
                    PvSupport.exc(sb, "exc", "msg", t);
                    sb.append(",\"stage\":\"build\"}");
                    return;
                }
                byte[] bytes;
                try {
                    bytes = toBytes(o);
                } catch (PvSupport.HarnessError e) {
                    throw e;
                } catch (Throwable t) {
                    sb.setLength(0);
                    sb.append('{');
                    PvSupport.exc(sb, "exc", "msg", t);
                    sb.append(",\"stage\":\"toBytes\"}");
                    return;
                }
                sb.append("{\"hex\":");
                PvSupport.jstr(sb, PvSupport.hex(bytes));
                sb.append(",\"class\":");
                PvSupport.jstr(sb, o.getClass().getSimpleName());
                int mark = sb.length();
                try {
                    sb.append(",\"built\":");
                    render(o, sb);
                } catch (PvSupport.HarnessError e) {
                    throw e;
                } catch (Throwable t) {
                    sb.setLength(mark);
                    sb.append(',');
                    PvSupport.exc(sb, "built_exc", "built_msg", t);
                }
                mark = sb.length();
                try {
                    Object r = parse(req.get("type"), bytes);
                    boolean eq = r != null && r.equals(o) && o.equals(r);
                    sb.append(",\"reparse_equals\":").append(eq);
                    sb.append(",\"reparse_class\":");
                    PvSupport.jstr(sb, r == null ? null : r.getClass().getSimpleName());
                    sb.append(",\"hash_equal\":").append(r != null && r.hashCode() == o.hashCode());
                } catch (PvSupport.HarnessError e) {
                    throw e;
                } catch (Throwable t) {
                    sb.setLength(mark);
                    sb.append(",\"reparse_equals\":false,");
                    PvSupport.exc(sb, "reparse_exc", "reparse_msg", t);
                }
                sb.append('}');
                return;
            }
            default:
                throw new PvSupport.HarnessError("unknown op " + op);
        }
    }
}''')
        return "\n".join(L) + "\n"

    def _write_values(self, values):
        """-> list of (class name, source); fills self.table."""
        info = self.info
        self.table = []
        classes = []
        cur = []
        cur_ks = []
        cur_size = 0
        index = []

        def flush():
            nonlocal cur, cur_ks, cur_size
            if not cur:
                return
            cname = "PvVals%d" % len(classes)
            src = "package %s;\n\nfinal class %s {\n%s}\n" % (self.pkg, cname, "".join(cur))
            classes.append((cname, src))
            index.append((cname, cur_ks))
            cur, cur_ks, cur_size = [], [], 0

        k = 0
        for tid in values:
            d = info.dm.get(tid)
            for i, v in enumerate(values[tid]):
                if d is None or d["kind"] not in ("packet_declaration", "struct_declaration"):
                    self.table.append((tid, i, None, "type %s is not a packet/struct of the description" % tid))
                    continue
                vw = _ValueWriter(info)
                vw.prefix = "v%d" % k
                try:
                    expr = vw.record(d, v)
                except Unrepresentable as e:
                    self.table.append((tid, i, None, str(e)))
                    continue
                except (TypeError, ValueError, KeyError) as e:
                    self.table.append((tid, i, None, "malformed value: %r" % (e,)))
                    continue
                body = "".join(vw.aux) + "    static Object v%d() throws Throwable {\n        return %s;\n    }\n" % (k, expr)
                if cur and cur_size + len(body) > self.VALS_PER_CLASS_BYTES:
                    flush()
                cur.append(body)
                cur_ks.append(k)
                cur_size += len(body)
                self.table.append((tid, i, k, None))
                k += 1
        flush()
        self._vals_index = index
        return classes

    # ------------------------------------------------------------ build
    def write_sources(self, values):
        """Write the driver next to the generated classes -> absolute paths of all sources."""
        if not self.generated_files:
            self.generate()
        self.close()
        self.built = False
        for fn in os.listdir(self.pkgdir):
            if fn.startswith("Pv") and fn.endswith(".java") and fn not in self.generated_files:
                os.unlink(os.path.join(self.pkgdir, fn))
        ours = []
        for cname, src in self._write_values(values or {}):
            with open(os.path.join(self.pkgdir, cname + ".java"), "w") as f:
                f.write(src)
            ours.append(cname + ".java")
        with open(os.path.join(self.pkgdir, "PvDriver.java"), "w") as f:
            f.write(self._driver_source())
        ours.append("PvDriver.java")
        with open(os.path.join(self.pkgdir, "PvSupport.java"), "w") as f:
            f.write("package %s;\n\n" % self.pkg + open(SUPPORT_SRC).read())
        ours.append("PvSupport.java")
        clash = sorted(set(ours) & set(self.generated_files))
        if clash:
            raise JavaError("generated class names collide with the driver's: %s" % clash, "javac",
                            files=clash, in_generated=False)
        return [os.path.join(self.pkgdir, fn) for fn in self.generated_files + ours]

    def build(self, values):
        sources = self.write_sources(values)
        shutil.rmtree(self.classes, ignore_errors=True)
        os.makedirs(self.classes)
        rc, out, dt = _javac(sources, self.classes, os.path.join(self.dir, "sources.txt"))
        self.timings["javac"] = dt
        if rc != 0:
            raise self._javac_error(out, rc)
        self.built = True
        return dt

    def _javac_error(self, out, rc):
        mine = self.pkgdir + os.sep
        files = sorted(set(os.path.basename(p) for p in re.findall(r"(\S+\.java):\d+: error", out)
                           if p.startswith(mine) or os.sep not in p))
        gen = [fn for fn in files if fn in self.generated_files]
        if len(out) > 9000:
            out = out[:6000] + "\n[...]\n" + out[-3000:]
        return JavaError(out, "javac", files=files, in_generated=bool(gen) if files else None, returncode=rc)

    # ------------------------------------------------------------ run
    def _client(self):
        if self.proc is None:
            if not self.built:
                raise JavaError("harness not built", "javac")
            argv = ["java", "-cp", self.classes, "-Xss8m", "-Xmx768m", "-XX:+UseSerialGC",
                    "-XX:TieredStopAtLevel=1", "-Xshare:auto", "-XX:-OmitStackTraceInFastThrow",
                    self.pkg + ".PvDriver"]
            self.proc = LineProc(argv, timeout=self.timeout, stack_mb=64, keep_stderr=True)
        return self.proc

    def _call(self, req):
        c = self._client()
        r = c.call(req)
        r.pop("id", None)
        if r.get("timeout"):
            return {"exc": "HarnessTimeout", "msg": "no reply within %.0f s" % c.timeout, "timeout": True,
                    "elapsed": r.get("elapsed")}
        if "crash" in r:
            return {"exc": "HarnessCrash", "msg": "JVM died: %s" % json.dumps(r["crash"])[:1500],
                    "crash": r["crash"], "elapsed": r.get("elapsed")}
        if "garbled" in r:
            return {"exc": "HarnessGarbled", "msg": r["garbled"], "garbled": True}
        if r.get("harness"):
            raise JavaError("driver error: %s" % r.get("msg"), "run")
        return r

    def ping(self):
        t0 = time.time()
        r = self._call({"op": "ping"})
        self.timings["jvm_start"] = time.time() - t0
        return bool(r.get("pong"))

    def serialize_all(self):
        out = []
        for tid, i, k, skip in self.table:
            if k is None:
                out.append({"type": tid, "i": i, "skip": skip})
                continue
            r = self._call({"op": "ser", "k": k, "type": tid})
            r["type"] = tid
            r["i"] = i
            out.append(r)
        return out

    def parse(self, type_id, inputs):
        d = self.info.dm.get(type_id)
        if d is None or d["kind"] not in ("packet_declaration", "struct_declaration"):
            raise JavaError("type %s is not a packet/struct of description %s" % (type_id, self.name), "run")
        out = []
        for b in inputs:
            out.append(self._call({"op": "parse", "type": type_id, "hex": bytes(b).hex()}))
        return out

    def enum_values(self, enum_id, ints):
        """extra: E.from<T>(v) for each v -> {"ok": to<T>(), "class": tag class, "str":..} | {"exc":..}.
        v is truncated to the enum's Java type, as a cast would."""
        d = self.info.dm.get(enum_id)
        if d is None or d["kind"] != "enum_declaration":
            raise JavaError("type %s is not an enum of description %s" % (enum_id, self.name), "run")
        bits = integral(d["width"])[2]
        return [self._call({"op": "enum", "type": enum_id, "v": str(int(v) & ((1 << bits) - 1))}) for v in ints]

    def close(self):
        if self.proc is not None:
            try:
                self.proc.close()
            except Exception:
                pass
            self.proc = None

    def __enter__(self):
        return self

    def __exit__(self, *a):
        self.close()

    def __del__(self):
        try:
            self.close()
        except Exception:
            pass


# Names the generated code uses for its own locals / members / types (each confirmed by a probe:
# javac failure, or for `buf` an exception in toBytes()).
BAD_MEMBER_NAMES = frozenset(["result", "other", "o", "builder", "buf"])
BAD_MEMBER_NAMES_ARRAY = frozenset(["i"])            # only when the field is an array
BAD_CLASS_NAMES = frozenset([
    "B",  # the type variable of every generated Builder<B ...>
    "Utils", "Builder", "UnconstrainedBuilder", "Byte", "Short", "Integer", "Long", "Boolean", "String", "Object",
    "Arrays", "ArrayList", "ByteBuffer", "ByteOrder", "Override", "IllegalArgumentException",
    "UnsupportedOperationException"])
BAD_TAG_NAMES = frozenset(["String", "Object", "Override", "IllegalArgumentException", "Integer", "Byte", "Short",
                           "Long"])


def _analyzer_order(file, exclude=()):
    """id -> position after analyzer::check_decl_identifiers' reordering: declarations in file
    order, each preceded by the types of its typedef / constant-size array / fixed-enum fields
    (through groups) and by its parent."""
    ex = set(exclude)
    decls = [d for d in file["declarations"] if d.get("id") not in ex]
    dm = {d["id"]: d for d in decls if "id" in d}
    order = {}
    visiting = set()

    def visit(d):
        did = d.get("id")
        if did is None or did in order or did in visiting:
            return
        visiting.add(did)
        for fl in d.get("fields", ()):
            k = fl["kind"]
            t = None
            if k == "group_field":
                t = fl.get("group_id")
            elif k == "typedef_field" or (k == "array_field" and fl.get("size") is not None):
                t = fl.get("type_id")
            elif k == "fixed_field":
                t = fl.get("enum_id")
            if t is not None and t in dm:
                visit(dm[t])
        if d.get("parent_id") in dm:
            visit(dm[d["parent_id"]])
        visiting.discard(did)
        order[did] = len(order)

    for d in decls:
        visit(d)
    return order


def diagnose(file, exclude=()):
    """-> [(declaration id, reason)]: why `pdlc --output-format java` panics on this description
    or emits Java that javac rejects. Empty = expected to generate and compile. Every rule was
    observed on the unchanged tree (probes recorded in the engine's hand-over report)."""
    info = _Info(file, exclude)
    out = []
    names = {}

    def claim(cn, did, what):
        if cn in names:
            out.append((did, "class name %s is also produced by %s" % (cn, names[cn])))
        names[cn] = what

    position = _analyzer_order(file, exclude)
    for d in info.decls:
        k = d["kind"]
        did = d.get("id")
        if k in ("custom_field_declaration", "checksum_declaration"):
            out.append((did, "%s (todo!() in java/mod.rs generate_classes, even when unused)" % k))
            continue
        # classes are created in the analyzer's declaration order (a post-order walk that does not
        # follow dynamically sized arrays) and looked up with unwrap()
        for fl in d.get("fields", ()):
            r = fl.get("type_id") if fl["kind"] == "array_field" else None
            if r is not None and r in position and position[r] >= position.get(did, -1):
                out.append((did, "array of %s, which the backend has not seen yet (declared later / recursive: "
                                 "unwrap panic at java/mod.rs Array)" % r))
        if k == "test_declaration" or did is None:
            continue
        why = []
        cn = class_name(did)
        claim(cn, did, did)
        if cn in BAD_CLASS_NAMES or cn in JAVA_KEYWORDS:
            why.append("class name %s shadows a name the generated code uses" % cn)
        if k == "enum_declaration":
            top = {}
            lim = 1 << (31 if d["width"] <= 32 else 63)
            for t in d["tags"]:
                sub = {}
                for u, scope in [(t, top)] + [(x, sub) for x in (t.get("tags") or ())]:
                    tn = upper_camel(u["id"])
                    if tn in scope:
                        why.append("tags %s and %s both become class %s" % (scope[tn], u["id"], tn))
                    scope[tn] = u["id"]
                    if tn == cn or tn in BAD_TAG_NAMES:
                        why.append("tag class name %s shadows a name the generated code uses" % tn)
                    if "range" in u:
                        if u["range"]["start"] >= lim or u["range"]["end"] >= lim:
                            why.append("range bound >= 2^%d is emitted as an out-of-range literal" % (31 if lim == 1 << 31 else 63))
                    elif "value" in u and u["value"] >= (1 << 31):
                        why.append("tag value >= 2^31 is emitted as an int literal")
            out.extend((did, w) for w in why)
            continue
        if k not in ("packet_declaration", "struct_declaration"):
            continue
        if info.has_payload(d):
            claim("Unknown" + cn, did, "the fallback child of " + did)
        is_parent = info.has_payload(d) or info.has_body(d)
        chunk = []
        chunks = []
        seen = set()
        members = 0
        for fl in d["fields"]:
            fk = fl["kind"]
            if fl.get("cond") is not None or fk == "flag_field":
                why.append("optional field / flag (todo!() in PacketDef::from_fields)")
                continue
            if fk in ("padding_field", "elementsize_field", "checksum_field", "group_field"):
                why.append("%s (todo!() in PacketDef::from_fields)" % fk)
                continue
            fid = A.field_id(fl)
            if fid is not None:
                members += 1
                mn = member_name(fid)
                if mn in JAVA_KEYWORDS:
                    why.append("member %s is a Java keyword" % mn)
                if mn in BAD_MEMBER_NAMES or (fk == "array_field" and mn in BAD_MEMBER_NAMES_ARRAY) or \
                        (re.fullmatch(r"chunk\d+", mn) and (is_parent or fk == "array_field")):
                    why.append("member %s clashes with a local of the generated code" % mn)
                if mn in seen:
                    why.append("two members become %s" % mn)
                seen.add(mn)
                if mn.endswith("Size") or mn.endswith("Count"):
                    why.append("member name %s ends in Size/Count (taken for a width field: panic)" % mn)
                if mn == "payload" and is_parent:
                    why.append("member named payload in a parent")
            width = None
            if fk in ("scalar_field", "reserved_field", "size_field", "count_field"):
                width = fl["width"]
                if fk in ("size_field", "count_field"):
                    if width == 1:
                        why.append("%s of width 1 (declared boolean, used as an int)" % fk)
                    if width > 32:
                        why.append("%s wider than 32 (mask emitted as an int literal / long narrowed to int)" % fk)
                    if fl["field_id"] == "_body_":
                        why.append("_size_(_body_) (looked up as member `body`, which does not exist)")
            elif fk == "fixed_field":
                if fl.get("enum_id") is not None:
                    width = (info.dm.get(fl["enum_id"]) or {}).get("width")
                    if width is None:
                        why.append("fixed field of undeclared enum %s" % fl["enum_id"])
                else:
                    width = fl["width"]
                    if fl["value"] >= (1 << 31):
                        why.append("fixed value >= 2^31 is emitted as an int literal")
            elif fk == "typedef_field":
                t = info.dm.get(fl["type_id"])
                if t is None:
                    why.append("field of undeclared type %s" % fl["type_id"])
                elif t["kind"] == "enum_declaration":
                    width = t["width"]
                elif t["kind"] not in ("struct_declaration", "packet_declaration"):
                    why.append("field of %s type" % t["kind"])
            if width is not None:
                chunk.append((fl, width))
                total = sum(w for _, w in chunk)
                if total > 64:
                    why.append("more than 64 bits before a byte boundary (ByteAligner panic)")
                    chunk = []
                elif total % 8 == 0:
                    chunks.append(chunk)
                    chunk = []
            elif fk == "array_field":
                ew = fl.get("width")
                if ew is None:
                    t = info.dm.get(fl["type_id"])
                    if t is None:
                        why.append("array of undeclared type %s" % fl["type_id"])
                    elif t["kind"] == "enum_declaration":
                        ew = t["width"]
                    elif t["kind"] not in ("struct_declaration", "packet_declaration"):
                        why.append("array of %s" % t["kind"])
                if ew is not None and (ew % 8 or ew > 64):
                    why.append("array element width %d (ByteAligner panic)" % ew)
        for ch in chunks:
            total = sum(w for _, w in ch)
            for fl, w in ch:
                if fl["kind"] == "fixed_field" and fl.get("enum_id") is None:
                    # the masked chunk expression is pasted unparenthesised into a string concatenation
                    if (17 <= w <= 31 and total <= 32) or (33 <= w <= 63):
                        why.append("fixed scalar of width %d (\"Value \" + chunk & mask does not type-check)" % w)
                    if w == 1:
                        why.append("fixed scalar of width 1 (boolean compared as an integer)")
        pid = d.get("parent_id")
        pd = info.dm.get(pid) if pid else None
        if pid and pd is None:
            why.append("parent %s is not declared" % pid)
        if pid and not is_parent and members == 0:
            why.append("concrete child without members (equals/hashCode reference an undefined `other`)")
        if pd is not None:
            own = {A.field_id(fl): fl for fl in pd["fields"]}
            for c in d.get("constraints", ()):
                fl = own.get(c["id"])
                if fl is None:
                    why.append("constraint on %s which is not a member of the direct parent (unwrap panic)" % c["id"])
                elif c.get("value") is not None and fl["kind"] == "scalar_field" and fl["width"] > 1:
                    bits = integral(fl["width"])[2]
                    if c["value"] >= (1 << (min(bits, 32) - 1)):
                        why.append("constraint value %d is emitted as an int literal that does not fit the signed "
                                   "%d-bit member" % (c["value"], bits))
        if info.has_body(d):
            kids = [x for x in info.decls if x.get("parent_id") == did]
            if not kids:
                why.append("_body_ without children (panic)")
            elif all(not x.get("constraints") and all(fl["kind"] in ("payload_field", "body_field") for fl in x["fields"])
                     for x in kids):
                # packet R{a:8,_body_} packet C:R{_payload_}: same panic ("Packet with _body_ field and no children!")
                why.append("_body_ whose only children are unconstrained payload-only aliases (panic)")
        out.extend((did, w) for w in why)
    return out


def supported(file, exclude=()):
    """Static pre-filter: list of "<declaration>: <reason>" strings, empty when the description is
    expected to go through the Java backend and javac."""
    return ["%s: %s" % x for x in diagnose(file, exclude)]


def auto_exclude(file, exclude=()):
    """Smallest-effort set of declaration ids to pass as --exclude-declaration so that what
    remains is supported: the diagnosed declarations plus everything that refers to an excluded
    one (children, typedef / array / fixed-enum users, groups and their users)."""
    ex = set(exclude)
    decls = [d for d in file["declarations"] if "id" in d]

    def refs(d):
        r = set()
        if d.get("parent_id"):
            r.add(d["parent_id"])
        for fl in d.get("fields", ()):
            for key in ("type_id", "enum_id", "group_id"):
                if fl.get(key):
                    r.add(fl[key])
        return r

    for _ in range(len(decls) + 2):
        bad = {did for did, _ in diagnose(file, ex) if did is not None}
        changed = bool(bad - ex)
        ex |= bad
        while True:
            more = {d["id"] for d in decls if d["id"] not in ex and refs(d) & ex}
            if not more:
                break
            ex |= more
            changed = True
        if not changed:
            break
    return tuple(d["id"] for d in decls if d["id"] in ex)
