"""JSON-lines subprocess client with crash attribution and a watchdog.

A request is written, then the reply is awaited until a deadline. If the process dies the
request gets {"crash": {...}}; if the deadline passes the process is killed and the request
gets {"timeout": True}. Either way the process is restarted for the next request, so one
bad input never hides the others ("open call" = the request in flight)."""
from __future__ import annotations

import json
import os
import resource
import select
import signal
import subprocess
import time


def _limits(stack_mb=8, as_gb=None):
    def f():
        resource.setrlimit(resource.RLIMIT_STACK, (stack_mb << 20, stack_mb << 20))
        resource.setrlimit(resource.RLIMIT_CORE, (0, 0))
        if as_gb:
            resource.setrlimit(resource.RLIMIT_AS, (as_gb << 30, as_gb << 30))
    return f


class LineProc:
    def __init__(self, argv, timeout=10.0, env=None, stack_mb=8, as_gb=None, cwd=None,
                 keep_stderr=False):
        self.argv = argv
        self.timeout = timeout
        self.env = env
        self.cwd = cwd
        self.p = None
        self.buf = b""
        self.n = 0
        self.restarts = 0
        self.stack_mb = stack_mb
        self.as_gb = as_gb
        self.keep_stderr = keep_stderr
        self.last_stderr = ""

    def _start(self):
        self.p = subprocess.Popen(self.argv, stdin=subprocess.PIPE, stdout=subprocess.PIPE,
                                  stderr=subprocess.PIPE if self.keep_stderr else subprocess.DEVNULL,
                                  preexec_fn=_limits(self.stack_mb, self.as_gb), env=self.env,
                                  cwd=self.cwd)
        self.buf = b""

    def close(self):
        if self.p:
            try:
                self.p.stdin.close()
                self.p.wait(timeout=5)
            except Exception:
                try:
                    self.p.kill()
                    self.p.wait()
                except Exception:
                    pass
            self.p = None

    def _readline(self, deadline):
        fd = self.p.stdout.fileno()
        while b"\n" not in self.buf:
            left = deadline - time.time()
            if left <= 0:
                return None
            r, _, _ = select.select([fd], [], [], min(left, 1.0))
            if r:
                chunk = os.read(fd, 1 << 16)
                if not chunk:
                    return b""
                self.buf += chunk
        line, self.buf = self.buf.split(b"\n", 1)
        return line

    def _stderr_tail(self):
        if not self.keep_stderr or self.p is None or self.p.stderr is None:
            return ""
        try:
            data = self.p.stderr.read() or b""
            return data.decode("utf-8", "replace")[-8000:]
        except Exception:
            return ""

    def call(self, req, timeout=None, _retry=True):
        """req: dict -> reply dict (with 'elapsed'), or {'crash':..} / {'timeout':True}.
        A deadline that passes is not yet a verdict on a loaded machine: the request is run once more,
        alone in a fresh process, with a deadline at least six times longer; only if that expires too is
        {'timeout': True} returned (with 'confirmed'), otherwise the second reply (marked)."""
        r = self._call(req, timeout)
        if _retry and "timeout" in r:
            self.slow_retries = getattr(self, "slow_retries", 0) + 1
            r2 = self._call(req, max(60.0, 6 * (timeout or self.timeout)))
            if "timeout" in r2:
                r2["confirmed"] = True
                r2["first_elapsed"] = r.get("elapsed")
            else:
                r2["retried_after_timeout"] = True
            return r2
        return r

    def _call(self, req, timeout=None):
        if self.p is None or self.p.poll() is not None:
            self._start()
        self.n += 1
        req = dict(req)
        req["id"] = self.n
        t0 = time.time()
        try:
            self.p.stdin.write((json.dumps(req) + "\n").encode("utf-8"))
            self.p.stdin.flush()
            line = self._readline(t0 + (timeout or self.timeout))
        except (BrokenPipeError, OSError):
            line = b""
        dt = time.time() - t0
        if line is None:
            try:
                self.p.kill()
                self.p.wait()
            except Exception:
                pass
            self.last_stderr = self._stderr_tail()
            self.p = None
            self.restarts += 1
            return {"timeout": True, "elapsed": dt}
        if line == b"" or line.startswith(b"@@ALLOC-CAP-EXCEEDED@@"):
            marker = line.startswith(b"@@ALLOC")
            # the alloc-cap marker is written on its own line right before abort()
            if not marker and b"@@ALLOC-CAP-EXCEEDED@@" in self.buf:
                marker = True
            try:
                rc = self.p.wait(timeout=10)
            except Exception:
                self.p.kill()
                rc = self.p.wait()
            self.last_stderr = self._stderr_tail()
            self.p = None
            self.restarts += 1
            sig = None
            if rc is not None and rc < 0:
                try:
                    sig = signal.Signals(-rc).name
                except Exception:
                    sig = str(-rc)
            return {"crash": {"returncode": rc, "signal": sig, "alloc_cap": marker,
                              "stderr": self.last_stderr[-2000:]}, "elapsed": dt}
        try:
            res = json.loads(line)
        except Exception:
            # e.g. marker glued before a line
            if b"@@ALLOC-CAP-EXCEEDED@@" in line:
                return self._crash_after_marker(dt)
            res = {"garbled": line[:200].decode("utf-8", "replace")}
        res["elapsed"] = dt
        return res

    def _crash_after_marker(self, dt):
        try:
            rc = self.p.wait(timeout=10)
        except Exception:
            self.p.kill()
            rc = self.p.wait()
        self.p = None
        self.restarts += 1
        return {"crash": {"returncode": rc, "signal": "SIGABRT", "alloc_cap": True}, "elapsed": dt}
