"""E4 — generated Rust under monitors.

A corpus = list of descriptions (name, model, PDL text). For each one the current tree's Rust
backend output is written as a module of a generated cargo workspace together with glue
(dispatch table, specialize / conversion / enum-scan ops); the workspace is built in a dev
flavour (overflow-checks, debug-assertions) and optionally a release flavour, and served as a
JSON-lines process (see rust/harness-support)."""
from __future__ import annotations

import hashlib
import json
import os
import re
import shutil
import time

from .. import ast as A
from . import build
from .driver import Driver, analyze_ok, panic_of
from .proc import LineProc

BATCH = 6  # descriptions per library crate (parallel rustc)


def rust_ident(s):
    kw = {"as", "break", "const", "continue", "crate", "else", "enum", "extern", "false", "fn", "for",
          "if", "impl", "in", "let", "loop", "match", "mod", "move", "mut", "pub", "ref", "return",
          "self", "Self", "static", "struct", "super", "trait", "true", "type", "unsafe", "use",
          "where", "while", "async", "await", "dyn", "abstract", "become", "box", "do", "final",
          "macro", "override", "priv", "typeof", "unsized", "virtual", "yield", "try"}
    return "r#" + s if s in kw else s


def backing(width):
    for w in (8, 16, 32, 64):
        if width <= w:
            return w
    raise ValueError(width)


def glue_for(name, f):
    """Rust source of the dispatch function for one description (f: inlined model)."""
    dm = A.decl_map(f)
    arms = []
    for d in f["declarations"]:
        k = d["kind"]
        tid = d.get("id")
        if k in ("packet_declaration", "struct_declaration"):
            ops = []
            kids = A.children_of(f, tid)
            if kids:
                cases = "".join(
                    "Ok(g::%sChild::%s(c)) => json!({\"child\": \"%s\", \"value\": hs::to_json(&c)}),\n"
                    % (tid, rust_ident(c["id"]), c["id"]) for c in kids)
                ops.append(
                    "\"specialize\" => hs::with_value::<g::%s>(arg, |v| match v.specialize() {\n%s"
                    "Ok(g::%sChild::None) => json!({\"child\": null}),\nErr(e) => hs::dec_err(&e),\n}),\n"
                    % (rust_ident(tid), cases, tid))

            def desc(x):
                out = []
                for c in A.children_of(f, x):
                    out.append(c["id"])
                    out.extend(desc(c["id"]))
                return out
            for c in desc(tid):
                ops.append("\"down:%s\" => hs::with_value::<g::%s>(arg, |v| hs::conv_dec(g::%s::try_from(v))),\n"
                           % (c, rust_ident(tid), rust_ident(c)))
            for a in A.parents_of(dm, d):
                ops.append("\"up:%s\" => hs::with_value::<g::%s>(arg, |v| hs::conv_any(g::%s::try_from(v))),\n"
                           % (a["id"], rust_ident(tid), rust_ident(a["id"])))
            arms.append("\"%s\" => match op {\n%s_ => hs::run_op::<g::%s>(op, arg),\n},\n"
                        % (tid, "".join(ops), rust_ident(tid)))
        elif k == "custom_field_declaration" and d.get("width") is not None:
            arms.append("\"%s\" => hs::run_op::<g::%s>(op, arg),\n" % (tid, rust_ident(tid)))
        elif k == "enum_declaration":
            w = d["width"]
            b = backing(w)
            wide = ["i%d" % x for x in (8, 16, 32, 64) if x > w] + \
                   ["u%d" % x for x in (8, 16, 32, 64) if x >= w and x != b]
            wide_ok = " && ".join("(%s::from(e) as i128 == x as i128)" % t for t in wide) or "true"
            arms.append(
                "\"enum:%s\" => match op {\n"
                "\"scan\" => hs::enum_scan(arg, |x| {\n"
                "  if x > (u%d::MAX as u64) { return hs::EnumProbe::OutOfBacking; }\n"
                "  match g::%s::try_from(x as u%d) {\n"
                "    Ok(e) => hs::EnumProbe::Ok { name: format!(\"{:?}\", e), back: u%d::from(e) as u64,\n"
                "        wide_ok: %s, json: hs::to_json(&e) },\n"
                "    Err(v) => hs::EnumProbe::Err(v as u64),\n"
                "  }\n"
                "}),\n"
                "\"default\" => { let e = g::%s::default(); json!({\"name\": format!(\"{:?}\", e), \"value\": u%d::from(e) as u64}) },\n"
                "\"deser\" => match serde_json::from_value::<g::%s>(arg[\"value\"].clone()) {\n"
                "    Ok(e) => json!({\"ok\": u%d::from(e) as u64}), Err(e) => json!({\"deser_err\": e.to_string()}) },\n"
                "_ => json!({\"error\": \"unknown op\"}),\n},\n"
                % (tid, b, rust_ident(tid), b, b, wide_ok, rust_ident(tid), b, rust_ident(tid), b))
    return (
        "pub mod %s {\n"
        "    #[allow(warnings)]\n    pub mod g { include!(\"%s_gen.rs\"); }\n"
        "    use harness_support as hs;\n    use serde_json::{json, Value};\n"
        "    use std::convert::TryFrom;\n    use pdl_runtime::Packet;\n"
        "    pub fn dispatch(t: &str, op: &str, arg: &Value) -> Value {\n"
        "        match t {\n%s_ => json!({\"error\": format!(\"unknown type {t}\")}),\n        }\n    }\n}\n"
        % (name, name, "".join(arms)))


LIB_TOML = """[package]
name = "%(pkg)s"
version = "0.0.0"
edition = "2021"
publish = false

[lib]
name = "%(name)s"
path = "src/lib.rs"

[features]
default = ["serde"]
serde = []

[dependencies]
harness-support = { path = "%(support)s" }
pdl-runtime = { path = "%(repo)s/pdl-runtime" }
bytes = { version = "1.4.0", features = ["serde"] }
serde = { version = "1.0.145", features = ["derive"] }
serde_json = "1.0.86"
thiserror = "1.0.47"
%(extra)s"""

WS_TOML = """[workspace]
resolver = "2"
members = [%(members)s]

[profile.dev]
debug = 0
opt-level = 0
overflow-checks = true
debug-assertions = true
incremental = false

[profile.release]
debug = 0
opt-level = 2
overflow-checks = false
debug-assertions = false
codegen-units = 16
incremental = false
"""

MIRI_NOTE = "# miri: the same workspace is run under `cargo +nightly miri run`\n"


class CorpusBuildError(Exception):
    pass


class RustCorpus:
    """descs: list of {'name': 'd0', 'file': model, 'text': pdl}"""

    def __init__(self, key, descs, log=None, derive=False):
        self.derive = derive   # modules produced by #[pdl_inline] instead of the CLI backend text
        self.key = key
        self.descs = list(descs)
        self.dir = os.path.join(build.WORK, "rs", build._repo_tag(), key)
        self.target = os.path.join(build.WORK, "target-" + build._repo_tag() + "-rs")
        self.tag = hashlib.sha1(key.encode()).hexdigest()[:10]
        self.dropped = {}   # name -> reason (generation panic / compile failure) — C10 events
        self.gen_events = []
        self.bins = {}

    def support_dir(self):
        d = os.path.join(build.WORK, "rs", build._repo_tag(), "_support")
        src = os.path.join(build.VERIF, "rust", "harness-support")
        toml = open(os.path.join(src, "Cargo.toml.in")).read().replace("@REPO@", os.path.abspath(build.REPO))
        build._write_if_changed(os.path.join(d, "Cargo.toml"), toml)
        build._write_if_changed(os.path.join(d, "src", "lib.rs"), open(os.path.join(src, "src", "lib.rs")).read())
        return d

    def generate(self):
        """Run the tree's Rust backend on every description (through the in-process driver)
        and write the workspace."""
        drv = Driver(timeout=60)
        live = []
        for d in self.descs:
            r = drv.request(d["text"], ["analyze", "gen:rust"], name=d["name"] + ".pdl")
            if not analyze_ok(r):
                self.dropped[d["name"]] = {"stage": "analyze", "res": _brief(r)}
                continue
            g = r.get("gen:rust", {})
            if "ok" not in g:
                self.dropped[d["name"]] = {"stage": "gen:rust", "res": _brief(r), "panic": panic_of(r)}
                continue
            d["rust"] = g["ok"]
            if self.derive:
                assert '"#' not in d["text"]
                d["rust"] = ('#[pdl_derive::pdl_inline(r#"%s"#)]\npub mod inner {}\npub use inner::*;\n' % d["text"])
            live.append(d)
        drv.close()
        self.live = live
        self._write(live)

    def _write(self, live):
        support = self.support_dir()
        os.makedirs(self.dir, exist_ok=True)
        batches = [live[i:i + BATCH] for i in range(0, len(live), BATCH)]
        members = []
        keep = set()
        for bi, batch in enumerate(batches):
            bname = "b%d" % bi
            members.append(bname)
            bdir = os.path.join(self.dir, bname)
            # package names are unique per corpus: cargo hashes workspace members relative to
            # the workspace root, so equal names in two workspaces sharing one target dir collide
            build._write_if_changed(os.path.join(bdir, "Cargo.toml"),
                                    LIB_TOML % {"name": bname, "pkg": "%s-%s" % (bname, self.tag),
                                                "support": support, "repo": os.path.abspath(build.REPO),
                                                "extra": ('pdl-derive = { path = "%s/pdl-derive" }\n'
                                                          % os.path.abspath(build.REPO)) if self.derive else ""})
            lib = ["#![allow(warnings)]\n"]
            for d in batch:
                build._write_if_changed(os.path.join(bdir, "src", d["name"] + "_gen.rs"), d["rust"])
                lib.append(glue_for(d["name"], A.inline_groups(d["file"])))
                keep.add(os.path.join(bdir, "src", d["name"] + "_gen.rs"))
            build._write_if_changed(os.path.join(bdir, "src", "lib.rs"), "".join(lib))
        # binary
        bdir = os.path.join(self.dir, "harness")
        deps = "".join('%s = { package = "%s-%s", path = "../%s" }\n' % (m, m, self.tag, m) for m in members)
        bin_toml = (LIB_TOML % {"name": "harness", "pkg": "harness-" + self.tag, "support": support,
                                "repo": os.path.abspath(build.REPO), "extra": ""}).replace(
            '[lib]\nname = "harness"\npath = "src/lib.rs"', '[[bin]]\nname = "harness-%s"\npath = "src/main.rs"' % self.tag)
        build._write_if_changed(os.path.join(bdir, "Cargo.toml"), bin_toml + deps)
        arms = []
        for bi, batch in enumerate(batches):
            for d in batch:
                arms.append('"%s" => b%d::%s::dispatch(t, op, arg),\n' % (d["name"], bi, d["name"]))
        main = ("#![allow(warnings)]\nuse harness_support as hs;\nuse serde_json::{json, Value};\n"
                "#[global_allocator]\nstatic ALLOC: hs::CountingAlloc = hs::CountingAlloc;\n"
                "fn main() {\n    hs::serve(|d, t, op, arg| match d {\n%s"
                "_ => json!({\"error\": format!(\"unknown description {d}\")}),\n    });\n}\n" % "".join(arms))
        build._write_if_changed(os.path.join(bdir, "src", "main.rs"), main)
        build._write_if_changed(os.path.join(self.dir, "Cargo.toml"),
                                WS_TOML % {"members": ", ".join('"%s"' % m for m in members + ["harness"])})
        lock = os.path.join(self.dir, "Cargo.lock")
        if not os.path.exists(lock):
            shutil.copy(os.path.join(build.REPO, "Cargo.lock"), lock)
        # remove stale batch dirs
        for e in os.listdir(self.dir):
            if re.fullmatch(r"b\d+", e) and e not in members:
                shutil.rmtree(os.path.join(self.dir, e), ignore_errors=True)

    def build(self, flavour="dev", max_rounds=4):
        """-> path of the harness binary; drops descriptions whose generated code does not
        compile (recorded in self.dropped: that is a C10 event)."""
        assert flavour in ("dev", "release")
        for _ in range(max_rounds):
            cmd = ["cargo", "build", "--offline", "-q", "--manifest-path", os.path.join(self.dir, "Cargo.toml"),
                   "--target-dir", self.target, "-p", "harness-" + self.tag]
            if flavour == "release":
                cmd.append("--release")
            with build.Lock("build-rs-" + build._repo_tag()):
                t0 = time.time()
                rc, out, dt = build.run(cmd, check=False, timeout=3600)
                if rc == 0:
                    src = os.path.join(self.target, "debug" if flavour == "dev" else "release", "harness-" + self.tag)
                    dst = os.path.join(self.dir, "harness-" + flavour)
                    tmp = dst + ".tmp%d" % os.getpid()
                    shutil.copy2(src, tmp)
                    os.replace(tmp, dst)
                    if dt > 3:
                        build.log("rust harness %s (%s, %d descriptions) built in %.1fs"
                                  % (self.key, flavour, len(self.live), dt))
                    self.bins[flavour] = dst
                    return dst
            bad = sorted(set(re.findall(r"(d\d+)_gen\.rs", out)))
            if not bad:
                bad_lib = sorted(set(re.findall(r"src/lib\.rs", out)))
                raise CorpusBuildError("harness build failed outside generated modules:\n" + out[-4000:])
            for name in bad:
                m = re.search(r"(error[^\n]*\n[^\n]*%s_gen\.rs[^\n]*(?:\n[^\n]*){0,12})" % name, out)
                self.dropped[name] = {"stage": "rustc", "error": (m.group(1) if m else out[-1500:])[:3000]}
            self.live = [d for d in self.live if d["name"] not in self.dropped]
            self._write(self.live)
        raise CorpusBuildError("harness build did not converge")

    def client(self, flavour="dev", timeout=10.0):
        return LineProc([self.bins[flavour]], timeout=timeout, stack_mb=8, as_gb=8)


def _brief(r):
    s = json.dumps(r)[:1500]
    return s


def cleanup_old(keep=3):
    """Bound disk usage: keep only the most recently used corpus directories."""
    root = os.path.join(build.WORK, "rs", build._repo_tag())
    if not os.path.isdir(root):
        return
    ents = [(os.path.getmtime(os.path.join(root, e)), e) for e in os.listdir(root) if not e.startswith("_")]
    ents.sort(reverse=True)
    now = time.time()
    for mt, e in ents[keep:]:
        if now - mt < 3600:
            continue   # possibly in use by a check running next to this one
        shutil.rmtree(os.path.join(root, e), ignore_errors=True)
