"""Self-validation of the C++ harness engine against the project's canonical vectors
(pinned copies under corpus/canonical): parse(packed) must give `unpacked`, error vectors must
be rejected, and the build side must reproduce `packed` (bytes and GetSize()).

    cd /verif && python3 -m pv.engines.cxx_selftest [-v] [--flavour asan|asan-ndebug|plain] [--valgrind]
"""
from __future__ import annotations

import json
import os
import sys
import time

from .. import selfcheck
from ..refmodel import Model
from .cxx import CxxHarness, unsupported_declarations

HERE = os.path.dirname(os.path.dirname(os.path.dirname(os.path.abspath(__file__))))


def run(flavour="asan", valgrind=False, verbose=False):
    ok = 0
    mismatches = []
    crashes = []
    timings = {}
    for e in ("le", "be"):
        f, vec = selfcheck.load(e)
        text = open(os.path.join(HERE, "corpus/canonical/%s_test_file.pdl" % e)).read()
        m = Model(f)
        exclude = sorted(unsupported_declarations(f))
        h = CxxHarness("canon_" + e, f, text, exclude=exclude)
        t0 = time.time()
        h.generate()
        timings[e + ":generate"] = time.time() - t0
        usable = set(h.types())
        values = {}
        cases = []     # (type, packed, want value or None, index on the build side or None)
        skipped = 0
        for entry in vec:
            for t in entry["tests"]:
                tt = t.get("packet", entry["packet"])
                if tt not in usable:
                    skipped += 1
                    continue
                packed = bytes.fromhex(t["packed"])
                if "expected_error" in t:
                    cases.append((tt, packed, None, None, t["expected_error"]))
                else:
                    v = selfcheck.rust_shape(m, tt, t["unpacked"])
                    values.setdefault(tt, []).append(v)
                    cases.append((tt, packed, v, len(values[tt]) - 1, None))
        t0 = time.time()
        h.build(values, flavour)
        timings[e + ":build"] = time.time() - t0
        t0 = time.time()
        ser = {(s["type"], s["i"]): s for s in h.serialize_all(flavour, valgrind=valgrind)}
        timings[e + ":serialize"] = time.time() - t0
        t0 = time.time()
        parsed = h.parse_many([(c[0], c[1]) for c in cases], flavour, valgrind=valgrind)
        timings[e + ":parse"] = time.time() - t0
        for (tt, packed, want, bi, experr), got in zip(cases, parsed):
            bad = []
            if "crash" in got:
                crashes.append((e, tt, packed.hex(), "parse", got["crash"]))
                bad.append("parse crashed: %s at %s" % (got["crash"]["kind"], got["crash"]["top_frame"]))
            elif want is None:
                if got.get("valid") is not False:
                    bad.append("parse accepted an input with expected_error %s: %r" % (experr, got.get("value")))
            else:
                if got.get("valid") is not True:
                    bad.append("parse rejected a valid input")
                elif got.get("value") != want:
                    bad.append("parse gave %s want %s" % (json.dumps(got.get("value"), sort_keys=True),
                                                         json.dumps(want, sort_keys=True)))
            if bi is not None:
                s = ser[(tt, bi)]
                if "crash" in s:
                    crashes.append((e, tt, packed.hex(), "serialize", s["crash"]))
                    bad.append("serialize crashed: %s at %s" % (s["crash"]["kind"], s["crash"]["top_frame"]))
                elif "error" in s:
                    bad.append("value not buildable: " + s["error"])
                else:
                    if s.get("hex") != packed.hex():
                        bad.append("serialize gave %s want %s" % (s.get("hex"), packed.hex()))
                    if s.get("size") != len(packed):
                        bad.append("GetSize gave %s want %d" % (s.get("size"), len(packed)))
            if bad:
                mismatches.append((e, tt, packed.hex(), bad))
            else:
                ok += 1
        if verbose:
            print("%s: %d types, %d excluded declarations, %d vectors skipped (excluded types), warnings %s, "
                  "exit reports %d" % (e, len(usable), len(exclude), skipped, h.warnings, len(h.exit_reports)))
            for r in h.exit_reports:
                print(r["report"][:2000])
    return {"ok": ok, "mismatches": mismatches, "crashes": crashes, "timings": timings}


def main(argv):
    verbose = "-v" in argv
    flavour = "asan"
    if "--flavour" in argv:
        flavour = argv[argv.index("--flavour") + 1]
    r = run(flavour, valgrind="--valgrind" in argv, verbose=verbose)
    for e, tt, packed, bad in r["mismatches"]:
        print("MISMATCH %s %s %s" % (e, tt, packed))
        for b in bad:
            print("    " + b)
    if verbose:
        for e, tt, packed, side, c in r["crashes"]:
            print("CRASH %s %s %s (%s): %s\n%s" % (e, tt, packed, side, c["kind"], c["report"][:3000]))
        print("timings: " + ", ".join("%s %.1fs" % kv for kv in r["timings"].items()))
    print("cxx selftest: %d vectors ok, %d mismatches" % (r["ok"], len(r["mismatches"])))
    return 0 if not r["mismatches"] else 1


if __name__ == "__main__":
    sys.exit(main(sys.argv[1:]))
