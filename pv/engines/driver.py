"""Client for rust/pdl-driver: one request = one source text + op list. The driver runs as a
subprocess with a bounded stack; a crash (signal / abort) or watchdog expiry is attributed
to exactly the in-flight request, the driver is restarted and the caller gets
{"crash": ...} or {"timeout": ...} for that request."""
from __future__ import annotations

import json
import os
import resource
import select
import subprocess
import time

from . import build


def _limits():
    # 8 MiB stack like a default shell; core dumps off
    resource.setrlimit(resource.RLIMIT_STACK, (8 << 20, 8 << 20))
    resource.setrlimit(resource.RLIMIT_CORE, (0, 0))


class Driver:
    def __init__(self, timeout=20.0, log=None):
        self.path = build.driver()
        self.timeout = timeout
        self.p = None
        self.n = 0
        self.restarts = 0
        self.log = log  # optional file object for the event log (jsonl)
        self.buf = b""

    def _start(self):
        self.p = subprocess.Popen([self.path], stdin=subprocess.PIPE, stdout=subprocess.PIPE,
                                  stderr=subprocess.DEVNULL, preexec_fn=_limits)
        self.buf = b""

    def close(self):
        if self.p:
            try:
                self.p.stdin.close()
                self.p.wait(timeout=5)
            except Exception:
                self.p.kill()
            self.p = None

    def _readline(self, deadline):
        fd = self.p.stdout.fileno()
        while b"\n" not in self.buf:
            left = deadline - time.time()
            if left <= 0:
                return None
            r, _, _ = select.select([fd], [], [], min(left, 1.0))
            if r:
                chunk = os.read(fd, 1 << 16)
                if not chunk:
                    return b""  # EOF: driver died
                self.buf += chunk
        line, self.buf = self.buf.split(b"\n", 1)
        return line

    def request(self, src, ops, timeout=None, **opts):
        """A deadline that passes is retried once, alone in a fresh process, with a deadline at least four
        times longer: on a loaded machine only a reproduced expiry is a 'timeout'."""
        r = self._request(src, ops, timeout, **opts)
        if "timeout" in r and not opts.get("_no_retry"):
            self.slow_retries = getattr(self, "slow_retries", 0) + 1
            r2 = self._request(src, ops, max(60.0, 4 * (timeout or self.timeout)), **opts)
            if "timeout" in r2:
                r2["confirmed"] = True
            else:
                r2["retried_after_timeout"] = True
            return r2
        return r

    def _request(self, src, ops, timeout=None, **opts):
        if self.p is None or self.p.poll() is not None:
            self._start()
        self.n += 1
        req = {"id": self.n, "src": src, "ops": list(ops)}
        req.update(opts)
        if self.log:
            self.log.write(json.dumps({"ev": "call", "id": self.n, "ops": list(ops), "len": len(src)}) + "\n")
        t0 = time.time()
        try:
            self.p.stdin.write((json.dumps(req) + "\n").encode("utf-8"))
            self.p.stdin.flush()
            line = self._readline(t0 + (timeout or self.timeout))
        except (BrokenPipeError, OSError):
            line = b""
        dt = time.time() - t0
        if line is None:
            self.p.kill()
            self.p.wait()
            self.p = None
            self.restarts += 1
            res = {"timeout": True, "elapsed": dt}
        elif line == b"":
            rc = self.p.wait()
            self.p = None
            self.restarts += 1
            res = {"crash": {"returncode": rc}, "elapsed": dt}
        else:
            res = json.loads(line)
            res["elapsed"] = dt
        if self.log:
            self.log.write(json.dumps({"ev": "ret", "id": self.n, "dt": round(dt, 6),
                                       "keys": sorted(res.keys())}) + "\n")
        return res


def analyze_ok(res):
    return isinstance(res.get("analyze"), dict) and res["analyze"].get("ok") is True


def codes(res):
    a = res.get("analyze")
    if isinstance(a, dict) and "err" in a:
        return sorted(set(d.get("code") or "?" for d in a["err"]))
    return []


def panic_of(res):
    """first panic record found in a response, as (stage, loc, msg)"""
    for k, v in res.items():
        if isinstance(v, dict) and "panic" in v:
            return (k, v["panic"]["loc"], v["panic"]["msg"])
        if isinstance(v, dict) and isinstance(v.get("first"), dict) and "panic" in v["first"]:
            return (k, v["first"]["panic"]["loc"], v["first"]["panic"]["msg"])
    return None
