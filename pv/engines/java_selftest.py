"""Self-test of the Java harness engine against the project's canonical vectors.

    cd /verif && python3 -m pv.engines.java_selftest [-v]

For the little- and big-endian canonical files: one harness per file (minus the declarations the
project's own run_java_generator_tests.sh excludes); every vector of a supported packet must
parse to its `unpacked` value (value shape of pv/refmodel.py), `expected_error` vectors must
raise, and the builder + toBytes() must reproduce `packed`."""
from __future__ import annotations

import json
import os
import sys
import time

from .. import selfcheck
from ..refmodel import Model
from . import build
from .java import JavaHarness, JavaError, script_excludes, auto_exclude, supported

HERE = build.VERIF


def cases(vec, exclude):
    """(declared packet, type to build/inspect, test) — same filtering as java/test.rs."""
    for entry in vec:
        tid = entry["packet"]
        if tid in exclude:
            continue
        for t in entry["tests"]:
            if t.get("packet") in exclude:
                continue
            yield tid, t.get("packet", tid), t


def run(verbose=False):
    exclude = script_excludes()
    ok = 0
    bad = []
    times = {}
    ok_prefilter = []
    for e in ("le", "be"):
        f, vec = selfcheck.load(e)
        text = open(os.path.join(HERE, "corpus/canonical/%s_test_file.pdl" % e)).read()
        m = Model(f)
        # the static pre-filter must agree with what the project itself excludes
        auto = set(auto_exclude(f))
        if auto != set(exclude) or supported(f, exclude):
            bad.append(("%s canonical file" % e, "auto_exclude differs from the script's list: only auto %s, only script %s; "
                        "remaining diagnoses %s" % (sorted(auto - set(exclude)), sorted(set(exclude) - auto),
                                                    supported(f, exclude)[:5])))
        else:
            ok_prefilter.append(e)
        h = JavaHarness("selftest_" + e, f, text, exclude=exclude)
        h.generate()
        todo = [c for c in cases(vec, exclude) if c[0] in h.info.dm and c[1] in h.info.dm]
        values = {}
        slot = {}
        for n, (tid, tt, t) in enumerate(todo):
            if "unpacked" in t:
                v = selfcheck.rust_shape(m, tt, t["unpacked"])
                slot[n] = (tt, len(values.setdefault(tt, [])))
                values[tt].append(v)
        h.build(values)
        t0 = time.time()
        h.ping()
        ser = {(r["type"], r["i"]): r for r in h.serialize_all()}
        for n, (tid, tt, t) in enumerate(todo):
            packed = bytes.fromhex(t["packed"])
            where = "%s %s%s %s" % (e, tid, "" if tt == tid else "/" + tt, t["packed"])
            # decode through the *declared* packet (a parent decodes into its children) and,
            # like test.rs, through the child class itself
            res = h.parse(tid, [packed])[0]
            res2 = h.parse(tt, [packed])[0] if tt != tid else res
            if "expected_error" in t:
                if "exc" in res and "exc" in res2 and not res.get("timeout") and not res.get("crash"):
                    ok += 1
                else:
                    bad.append((where, "expected %s, got %s" % (t["expected_error"], json.dumps(res)[:300])))
                continue
            want = selfcheck.rust_shape(m, tt, t["unpacked"])
            d = h.info.dm[tt]
            want_class = h.info.concrete_class(d)
            problems = []
            for which, r in (("parent", res), ("self", res2)):
                if "ok" not in r:
                    problems.append("%s parse raised %s" % (which, json.dumps(r)[:300]))
                elif r["ok"] != want:
                    problems.append("%s parse gave %s want %s" % (which, json.dumps(r["ok"])[:300], json.dumps(want)[:300]))
                elif r.get("class") != want_class:
                    problems.append("%s parse gave class %s want %s" % (which, r.get("class"), want_class))
            s = ser[slot[n]]
            if "skip" in s:
                problems.append("value not built: " + s["skip"])
            elif "hex" not in s:
                problems.append("serialize raised %s" % json.dumps(s)[:300])
            else:
                if s["hex"] != t["packed"].lower():
                    problems.append("toBytes gave %s" % s["hex"])
                if s.get("built") != want:
                    problems.append("getters of the built object gave %s" % json.dumps(s.get("built"))[:300])
                if not s.get("reparse_equals") or not s.get("hash_equal"):
                    problems.append("reparse not equal: %s" % json.dumps({k: s[k] for k in s if k.startswith("reparse") or k == "hash_equal"}))
            if problems:
                bad.append((where, "; ".join(problems)))
            else:
                ok += 1
        times[e] = dict(h.timings, run=time.time() - t0, vectors=len(todo),
                        classes=len(h.generated_files))
        h.close()
    times["prefilter_matches_script_excludes"] = ok_prefilter
    return ok, bad, times


def main():
    verbose = "-v" in sys.argv
    try:
        ok, bad, times = run(verbose)
    except JavaError as x:
        print("java selftest: harness failure at stage %s:\n%s" % (x.stage, x))
        return 2
    for where, what in bad:
        print("MISMATCH", where, "::", what)
    if verbose:
        print(json.dumps(times))
    print("java selftest: %d vectors ok, %d mismatches" % (ok, len(bad)))
    return 1 if bad else 0


if __name__ == "__main__":
    sys.exit(main())
