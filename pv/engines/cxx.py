"""E5 — generated C++ under sanitizers.

One harness = one description. The tree's C++ backend output (`pdlc --output-format cxx`) is
written next to a generated driver that
  * parses inputs through `<T>View::Create(...)` (packets; every getter is called, arrays are
    re-parsed lazily there) or `<T>::Parse(...)` (structs) and prints the result as JSON in the
    reference model's value shape,
  * constructs builders / structs from C++ literals generated from JSON values and prints
    `Serialize()` / `GetSize()`,
  * scans the generated enum validity functions.
The driver is built with clang++-14 in three flavours (asan, asan-ndebug, plain [for valgrind])
and speaks a BEGIN-k / JSON-line protocol (see cxx/pv_harness.h) so that a sanitizer abort,
assert, uncaught exception, signal or hang is attributed to exactly one entry; the python side
restarts the driver at k + 1.

Nothing here raises on a crashing input; CxxError is for harness-level failures only
(generation failure, compile failure, driver that cannot start)."""
from __future__ import annotations

import collections
import concurrent.futures
import hashlib
import json
import os
import re
import resource
import select
import shutil
import signal
import subprocess
import tempfile
import time

from .. import ast as A
from . import build

CXX = os.environ.get("VERIF_CXX", "clang++-14")
SUPPORT_DIR = os.path.join(build.VERIF, "cxx")
STD = "-std=c++17"
SAN = ["-fsanitize=address,undefined", "-fno-sanitize-recover=all", "-fno-omit-frame-pointer"]
FLAVOURS = {
    "asan": [STD, "-O1", "-g"] + SAN,
    "asan-ndebug": [STD, "-O1", "-g"] + SAN + ["-DNDEBUG"],
    # valgrind 3.19 cannot read clang's DWARF 5. -O0: at -O1 clang copies a std::optional<uint8_t> (value byte +
    # engaged byte) as one 16-bit word and tests it, which memcheck reports as a jump on an uninitialised value
    # although only the (never read) value byte is undefined - gone at -O0, so not a defect of the generated code
    "plain": [STD, "-O0", "-g", "-gdwarf-4"],
}
ASAN_OPTIONS = ("halt_on_error=1:abort_on_error=1:detect_leaks=1:max_allocation_size_mb=512:"
                "handle_abort=1")   # handle_abort: stack trace for assert() / terminate
UBSAN_OPTIONS = "print_stacktrace=1:halt_on_error=1"
VALGRIND_EXIT = 97
VALGRIND = ["valgrind", "-q", "--error-exitcode=%d" % VALGRIND_EXIT, "--exit-on-first-error=yes",
            "--leak-check=no", "--track-origins=no", "--num-callers=30"]
TIMEOUT = 20.0          # per-input watchdog
RSS_LIMIT_MB = int(os.environ.get("VERIF_CXX_RSS_MB", "6144"))   # resident-set watchdog (kind "oom")
SER_CHUNK = 48          # build-side entries per translation unit
PARSE_CHUNK = 24        # parse-side types per translation unit
JOBS = max(2, min(12, (os.cpu_count() or 4)))


class CxxError(Exception):
    """generation / compile failure (message = tool output)"""


class Unbuildable(Exception):
    """a JSON value that cannot be written as an argument of the generated C++ API"""


# ------------------------------------------------------------------------------ naming
def upper_camel(s):
    """heck 0.4.1 ToUpperCamelCase without the `unicode` feature (what cxx.rs links)."""
    words = []
    for word in re.split(r"[^0-9A-Za-z]", s):
        init = 0
        mode = "B"
        n = len(word)
        for i, c in enumerate(word):
            if i + 1 < n:
                nxt = word[i + 1]
                if c.islower():
                    next_mode = "L"
                elif c.isupper():
                    next_mode = "U"
                else:
                    next_mode = mode
                if next_mode == "L" and nxt.isupper():
                    words.append(word[init:i + 1])
                    init = i + 1
                    mode = "B"
                elif mode == "U" and c.isupper() and nxt.islower():
                    words.append(word[init:i])
                    init = i
                    mode = "B"
                else:
                    mode = next_mode
            else:
                words.append(word[init:])
    return "".join(w[:1].upper() + w[1:].lower() for w in words if w)


def backing(width):
    for w in (8, 16, 32, 64):
        if width <= w:
            return w
    raise Unbuildable("width %r has no C++ scalar type" % (width,))


def c_ident(s):
    return re.sub(r"\W", "_", s)


# ------------------------------------------------------------------------------ support scan
def unsupported_declarations(file):
    """{declaration id: reason} for the declarations of `file` (model dict) the C++ backend
    cannot translate (to be passed as `exclude`). Derived from reading backends/cxx.rs:
    custom_field and checksum declarations are not emitted at all, so every declaration that
    names one (directly, through a struct-typed field / array element, or through its parent
    chain) is unusable as well."""
    f = A.inline_groups(file)
    dm = A.decl_map(f)
    bad = {}
    for d in f["declarations"]:
        if d["kind"] in ("custom_field_declaration", "checksum_declaration"):
            bad[d["id"]] = d["kind"]
    changed = True
    while changed:
        changed = False
        for d in f["declarations"]:
            if d.get("id") in bad or "fields" not in d:
                continue
            why = None
            if d.get("parent_id") is not None:
                if d["parent_id"] in bad:
                    why = "parent %s unsupported" % d["parent_id"]
                elif d["parent_id"] not in dm:
                    why = "parent %s undeclared" % d["parent_id"]
            for fl in d["fields"]:
                if why:
                    break
                if fl["kind"] == "checksum_field":
                    why = "checksum start field"
                t = fl.get("type_id") if fl["kind"] in ("typedef_field", "array_field") else None
                if t is not None and t in bad:
                    why = "uses %s (%s)" % (t, bad[t])
            if why:
                bad[d["id"]] = why
                changed = True
    return bad


CXX_KEYWORDS = set("""alignas alignof and and_eq asm auto bitand bitor bool break case catch char
char8_t char16_t char32_t class compl concept const consteval constexpr constinit const_cast continue
co_await co_return co_yield decltype default delete do double dynamic_cast else enum explicit export
extern false float for friend goto if inline int long mutable namespace new noexcept not not_eq nullptr
operator or or_eq private protected public register reinterpret_cast requires return short signed
sizeof static static_assert static_cast struct switch template this thread_local throw true try typedef
typeid typename union unsigned using virtual void volatile wchar_t while xor xor_eq
int8_t int16_t int32_t int64_t uint8_t uint16_t uint32_t uint64_t size_t""".split())


def emission_order(file):
    """declaration ids in the order the analyzer hands them to the backends (depth-first
    post-order over group / typedef / static-array / fixed-enum references and parents, as
    in analyzer.rs check_decl_identifiers; dynamic arrays are deliberately not followed)"""
    dm = A.decl_map(file)
    out = []
    mark = set()

    def visit(d):
        if d["id"] in mark:
            return
        mark.add(d["id"])
        for fl in d.get("fields", ()):
            k = fl["kind"]
            t = None
            if k == "group_field":
                t = dm.get(fl["group_id"])
                if t is not None and t["kind"] != "group_declaration":
                    t = None
            elif k == "typedef_field" or (k == "array_field" and fl.get("type_id") is not None
                                          and fl.get("size") is not None):
                t = dm.get(fl["type_id"])
                if t is not None and t["kind"] in ("packet_declaration", "group_declaration"):
                    t = None
            elif k == "fixed_field" and "enum_id" in fl:
                t = dm.get(fl["enum_id"])
                if t is not None and t["kind"] != "enum_declaration":
                    t = None
            if t is not None:
                visit(t)
        if d.get("parent_id") is not None and d["parent_id"] in dm:
            visit(dm[d["parent_id"]])
        out.append(d["id"])

    for d in file["declarations"]:
        if "id" in d:
            visit(d)
    return out


def uncompilable_declarations(file):
    """{declaration id: reason}: declarations for which the C++ backend (as read from
    backends/cxx.rs and confirmed by probing) panics or emits code that does not compile,
    although the analyzer accepts them. These are backend *defects / gaps*, unlike
    unsupported_declarations(); a caller that wants a compilable header for the rest of a
    description excludes both sets (each reason is reportable once as a finding).
    The prediction is conservative in neither direction: build() failing with CxxError is
    the ground truth."""
    from ..refmodel import Model
    f = A.inline_groups(file)
    m = Model(file)
    dm = m.dm
    bad = {}
    order = {id: n for n, id in enumerate(emission_order(file))}

    def first_tag_not_value(enum_id):
        tags = dm[enum_id]["tags"]
        return bool(tags) and A.tag_kind(tags[0]) != "value"

    def closed(enum_id):
        return all(A.tag_kind(t) != "other" for t in dm[enum_id]["tags"])

    for d in f["declarations"]:
        k = d["kind"]
        if k not in ("packet_declaration", "struct_declaration"):
            continue
        why = []
        fields = d["fields"]
        if k == "packet_declaration" and not fields:
            why.append("packet without fields: view Parse() uses an undeclared `span`")
        if k == "struct_declaration" and A.get_payload(d) is not None:
            why.append("struct with payload/body: slice assigned to std::vector<uint8_t>")
        if k == "struct_declaration" and d.get("parent_id") is not None:
            why.append("struct inheritance: parent fields and constraints are ignored")
        flags = {fl["cond"]["id"] for fl in fields if fl.get("cond") is not None}
        n_closed = 0
        ids = set()
        bits = 0
        for idx, fl in enumerate(fields):
            fk = fl["kind"]
            fid = A.field_id(fl)
            if fid is not None:
                ids.add(fid)
                if fid in CXX_KEYWORDS:
                    why.append("field `%s` is a C++ keyword / reserved type name" % fid)
                if fid in flags and fid in ("span", "parent", "output", "raw_value", "n"):
                    why.append("flag `%s` collides with a local of the generated parser" % fid)
            if fk == "typedef_field" and fl.get("cond") is None and fl["type_id"] in dm and \
                    dm[fl["type_id"]]["kind"] == "enum_declaration":
                if closed(fl["type_id"]):
                    n_closed += 1
                if first_tag_not_value(fl["type_id"]):
                    why.append("field `%s`: first tag of enum %s is a range / default tag "
                               "(member initializer names an undeclared enumerator)" % (fid, fl["type_id"]))
            # bit-field chunks wider than 64 bits
            try:
                if m.is_bitfield(fl):
                    bits += m.bit_width(fl)
                    if bits % 8 == 0:
                        if bits > 64:
                            why.append("bit-field chunk of %d bits (get_cxx_scalar_type panics)" % bits)
                        bits = 0
                else:
                    bits = 0
            except Exception:
                bits = 0
            # unknown-size field followed by non-static fields
            unknown = False
            if fk in ("payload_field", "body_field"):
                unknown = m.payload_size_field(d) is None
            elif fk == "typedef_field" and fl.get("cond") is None and fl["type_id"] in dm and \
                    dm[fl["type_id"]]["kind"] == "struct_declaration":
                try:
                    unknown = m.class_field(d, idx) == "unknown"
                except Exception:
                    unknown = False
            if unknown:
                try:
                    if m.trailing_static_bytes(d, idx) is None:
                        why.append("unknown-size field followed by fields of non-constant size "
                                   "(get_trailing_size panics)")
                except Exception:
                    pass
        if n_closed >= 2:
            why.append("%d closed-enum fields in one declaration: `auto raw_value` redefined" % n_closed)
        # member names of the generated view / builder / struct class must be distinct
        members = collections.Counter()
        if k == "packet_declaration":
            members.update(["valid_", "bytes_"])
            chain = m.chain(d)
            cons = set()
            for x in chain:
                cons.update(c["id"] for c in x.get("constraints", ()))
        else:
            chain = [d]
            cons = set()
        for x in chain:
            xflags = {fl["cond"]["id"] for fl in x["fields"] if fl.get("cond") is not None}
            for fl in x["fields"]:
                fk = fl["kind"]
                if fk in ("payload_field", "body_field"):
                    if x is d:
                        members["payload_"] += 1
                elif fk in ("scalar_field", "typedef_field", "array_field"):
                    if fl["id"] in cons or (fk == "scalar_field" and fl["id"] in xflags):
                        continue
                    members[fl["id"] + "_"] += 1
                elif fk in ("size_field", "count_field", "elementsize_field"):
                    suffix = {"size_field": "_size_", "count_field": "_count_",
                              "elementsize_field": "_element_size_"}[fk]
                    base = "payload" if fl["field_id"] in ("_payload_", "_body_") and fk != "count_field" \
                        else fl["field_id"]
                    members[base + suffix] += 1
        dups = sorted(n for n, c in members.items() if c > 1)
        if dups:
            why.append("duplicate generated member(s) %s" % ", ".join(dups))
        # array element types must be declared before use; the analyzer's declaration sort does
        # not follow dynamic arrays
        for x in chain:
            for fl in x["fields"]:
                if fl["kind"] == "array_field" and fl.get("type_id") is not None and fl.get("size") is None:
                    if order.get(fl["type_id"], -1) > order.get(d["id"], 1 << 30):
                        why.append("array element type %s is declared after its use (declaration sort "
                                   "ignores dynamic arrays)" % fl["type_id"])
        if why:
            bad[d["id"]] = "; ".join(why)
    # propagate through parents and struct-typed fields
    changed = True
    while changed:
        changed = False
        for d in f["declarations"]:
            if d.get("id") in bad or "fields" not in d:
                continue
            why = None
            if d.get("parent_id") in bad:
                why = "parent %s: %s" % (d["parent_id"], bad[d["parent_id"]])
            for fl in d["fields"]:
                t = fl.get("type_id") if fl["kind"] in ("typedef_field", "array_field") else None
                if why is None and t in bad:
                    why = "uses %s: %s" % (t, bad[t])
            if why:
                bad[d["id"]] = why[:400]
                changed = True
    return bad


# ------------------------------------------------------------------------------ crash reports
_FRAME = re.compile(r"^\s*#(\d+) 0x[0-9a-f]+ (?:in )?(.*?) (/[^\s:]+|[\w./+-]+):(\d+)(?::\d+)?\s*$")
_VG_FRAME = re.compile(r"^==\d+==\s+(?:at|by) 0x[0-9A-Fa-f]+: (.*) \(([^():]+):(\d+)\)\s*$")
_ASSERT = re.compile(r"^(?:[^\s:]+: )?(/?[^\s:]+):(\d+): (.*): Assertion `(.*)' failed\.", re.M)
_UBSAN = re.compile(r"^(\S+?):(\d+):(\d+): runtime error: (.*)$", re.M)


def frames_of(report):
    out = []
    for ln in report.splitlines():
        m = _FRAME.match(ln)
        if m:
            out.append((m.group(2), m.group(3), int(m.group(4))))
            continue
        m = _VG_FRAME.match(ln)
        if m:
            out.append((m.group(1), m.group(2), int(m.group(3))))
    return out


def classify(report, rc, timed_out, header_name, valgrind=False):
    """-> crash dict {kind, report, top_frame, gen_frame, returncode}"""
    sig = None
    if rc is not None and rc < 0:
        try:
            sig = signal.Signals(-rc).name
        except Exception:
            sig = str(-rc)
    kind = None
    ma = _ASSERT.search(report)
    mu = _UBSAN.search(report)
    if timed_out and not (ma or mu or "ERROR: AddressSanitizer" in report or "PV-EXCEPTION:" in report):
        # (a process that has already printed a sanitizer report / failed assertion and is then slow to
        # die - symbolizing its stack on a loaded machine - is that report, not a hang)
        kind = "timeout"
    elif ma:
        kind = "assert"
    elif "PV-EXCEPTION:" in report or "terminate called" in report:
        kind = "exception"
    elif mu:
        kind = "ubsan"
    elif "PV-LEAK:" in report or "ERROR: LeakSanitizer" in report:
        kind = "asan"
    elif "ERROR: AddressSanitizer" in report and not re.search(r"AddressSanitizer: ABRT", report):
        kind = "asan"
    elif valgrind and (rc == VALGRIND_EXIT or re.search(r"^==\d+== (Invalid|Conditional jump|Use of uninit|"
                                                         r"Syscall param|Mismatched|Source and dest|Argument)",
                                                         report, re.M)):
        kind = "valgrind"
    elif sig:
        kind = "signal:" + sig
    elif "ERROR: AddressSanitizer" in report:
        kind = "signal:SIGABRT"
    else:
        kind = "exit:%s" % rc
    gen = {header_name, "packet_runtime.h"}
    top = gen_frame = None
    for fn, path, ln in frames_of(report):
        base = os.path.basename(path)
        if base in gen and top is None:
            top = "%s:%d %s" % (base, ln, fn)
        if base == header_name and gen_frame is None:
            gen_frame = "%s:%d %s" % (base, ln, fn)
    if top is None and ma and os.path.basename(ma.group(1)) in gen:
        top = "%s:%s %s" % (os.path.basename(ma.group(1)), ma.group(2), ma.group(3))
    if top is None and mu and os.path.basename(mu.group(1)) in gen:
        top = "%s:%s" % (os.path.basename(mu.group(1)), mu.group(2))
    out = {"kind": kind, "report": report[-12000:], "top_frame": top, "gen_frame": gen_frame,
           "returncode": rc}
    if ma:
        out["assertion"] = ma.group(4)
    if mu:
        out["ubsan"] = mu.group(4)
    return out


def _rss_mb(pid):
    try:
        with open("/proc/%d/statm" % pid) as f:
            return int(f.read().split()[1]) * (resource.getpagesize() >> 10) >> 10
    except (OSError, ValueError, IndexError):
        return 0


def _limits(stack_mb=8):
    def f():
        resource.setrlimit(resource.RLIMIT_STACK, (stack_mb << 20, stack_mb << 20))
        resource.setrlimit(resource.RLIMIT_CORE, (0, 0))
    return f


# ------------------------------------------------------------------------------ harness
class CxxHarness:
    def __init__(self, name, file, text, exclude=()):
        """name: short id like 'd12'; file: model dict; text: PDL source; exclude: declaration
        ids passed as --exclude-declaration"""
        self.name = c_ident(name)
        self.raw = file
        self.text = text
        self.exclude = list(exclude)
        self.file = A.inline_groups(file)
        self.dm = {k: d for k, d in A.decl_map(self.file).items() if k not in set(self.exclude)}
        self.ns = "pvg_" + self.name
        self.dir = os.path.join(build.WORK, "cxx", build._repo_tag(), self.name)
        self.header_name = self.name + ".h"
        self.header = None
        self.values = {}
        self.entries = []        # [(type, i, error or None)] of the last build()
        self.bins = {}           # flavour -> path
        self._built_key = {}     # flavour -> digest of everything that went into the binary
        self.timings = {}
        self.exit_reports = []   # sanitizer / valgrind output that could not be tied to an entry
        self.warnings = []
        self._types = None

    # ---------------------------------------------------------------- model queries
    def types(self):
        """ids of packet / struct declarations the driver covers: not excluded, and neither is
        anything they refer to (parents, field and element types)"""
        if self._types is None:
            ok = {}

            def usable(id, depth=0):
                if id in ok:
                    return ok[id]
                d = self.dm.get(id)
                if d is None or depth > 64:
                    return False
                ok[id] = True   # recursive element types
                r = d["kind"] in ("packet_declaration", "struct_declaration", "enum_declaration")
                if r and d.get("parent_id") is not None:
                    r = usable(d["parent_id"], depth + 1)
                for fl in d.get("fields", ()):
                    if r and fl["kind"] in ("typedef_field", "array_field") and fl.get("type_id") is not None:
                        r = usable(fl["type_id"], depth + 1)
                    if r and fl["kind"] == "fixed_field" and "enum_id" in fl:
                        r = usable(fl["enum_id"], depth + 1)
                ok[id] = r
                return r

            self._types = [d["id"] for d in self.file["declarations"]
                           if d["kind"] in ("packet_declaration", "struct_declaration")
                           and d.get("id") in self.dm and usable(d["id"])]
        return list(self._types)

    def enums(self):
        return [d["id"] for d in self.file["declarations"]
                if d["kind"] == "enum_declaration" and d["id"] in self.dm]

    def _chain(self, d):
        out = [d]
        while d.get("parent_id") is not None:
            p = self.dm.get(d["parent_id"])
            if p is None:
                raise CxxError("%s: parent %s is excluded or undeclared" % (d["id"], d["parent_id"]))
            d = p
            out.append(d)
            if len(out) > 64:
                raise CxxError("parent cycle at %s" % d["id"])
        return list(reversed(out))

    def _constraints(self, chain):
        out = {}
        for d in chain:
            for c in d.get("constraints", ()):
                out[c["id"]] = c
        return out

    @staticmethod
    def _flags(d):
        return {fl["cond"]["id"] for fl in d["fields"] if fl.get("cond") is not None}

    def _kind(self, type_id):
        d = self.dm.get(type_id)
        return d["kind"] if d else None

    def _members(self, d):
        """[(json key, field, section)] : what a parsed `d` exposes. section 'value' = member of
        the value shape, 'fixed' = getter of a constrained field (packets only)."""
        out = []
        if d["kind"] == "struct_declaration":
            # the C++ struct class only has the declaration's own fields (parents are ignored
            # by generate_struct_declaration)
            flags = self._flags(d)
            for fl in d["fields"]:
                k = fl["kind"]
                if k in ("scalar_field", "typedef_field", "array_field"):
                    if k == "scalar_field" and fl["id"] in flags:
                        continue
                    out.append((fl["id"], fl, "value"))
                elif k in ("payload_field", "body_field"):
                    out.append(("payload", fl, "value"))
            return out
        chain = self._chain(d)
        cons = self._constraints(chain)
        for x in chain:
            flags = self._flags(x)
            for fl in x["fields"]:
                k = fl["kind"]
                if k in ("payload_field", "body_field"):
                    if x is d:
                        out.append(("payload", fl, "value"))
                    continue
                if k not in ("scalar_field", "typedef_field", "array_field"):
                    continue
                if fl["id"] in cons:
                    if k == "scalar_field" or (k == "typedef_field" and self._kind(fl["type_id"]) == "enum_declaration"):
                        out.append((fl["id"], fl, "fixed"))
                    continue
                if k == "scalar_field" and fl["id"] in flags:
                    continue
                out.append((fl["id"], fl, "value"))
        return out

    def _params(self, d):
        """constructor parameters of `<T>Builder` / struct `T`: [(json key, field)]"""
        return [(k, fl) for (k, fl, sec) in self._members(d) if sec == "value"]

    # ---------------------------------------------------------------- generate
    def generate(self):
        extra = ["--namespace", self.ns]
        for x in self.exclude:
            extra += ["--exclude-declaration", x]
        t0 = time.time()
        rc, out, err = build.pdlc_text(self.text, "cxx", extra=extra, name=self.name + ".pdl")
        self.timings["generate"] = time.time() - t0
        if rc != 0:
            raise CxxError("pdlc --output-format cxx failed (%s):\n%s" % (rc, err[-6000:]))
        # the banner names the (pid-specific) scratch input: keep the text stable so that the
        # object cache works across runs
        out = re.sub(r"\A// File generated from [^\n]*\n//   pdlc --output-format cxx [^\n]*\n",
                     "// File generated from %s.pdl, with the command\n//   pdlc --output-format cxx %s.pdl\n"
                     % (self.name, self.name), out, count=1)
        os.makedirs(self.dir, exist_ok=True)
        build._write_if_changed(os.path.join(self.dir, self.header_name), out)
        self.header = out
        return out

    def _getter(self, d, fid):
        """name of the view accessor of field `fid` (checked against the header text)"""
        want = "Get" + upper_camel(fid)
        body = self._class_text(d["id"] + "View")
        names = re.findall(r"\b(Get\w+)\(\) const", body)
        if want in names:
            return want
        loose = [n for n in names if n.lower().replace("_", "") == ("get" + fid).lower().replace("_", "")]
        if len(loose) == 1:
            return loose[0]
        return None

    def _class_text(self, cls):
        m = re.search(r"^class %s (?::[^{]*)?\{\n" % re.escape(cls), self.header, re.M)
        if not m:
            return ""
        end = self.header.find("\n};\n", m.end())
        return self.header[m.start():end if end >= 0 else len(self.header)]

    # ---------------------------------------------------------------- C++ text: parse side
    def _put_struct(self, d):
        lines = ["inline void pv_put(pv::Out& o, %s const& v) {" % d["id"], "    o.ch('{');"]
        first = True
        for key, fl, _ in self._members(d):
            member = "payload_" if key == "payload" else fl["id"] + "_"
            if not first:
                lines.append("    o.ch(',');")
            first = False
            lines.append('    o.key("%s"); pv_put(o, v.%s);' % (key, member))
        lines += ["    o.ch('}');", "}"]
        return "\n".join(lines)

    def _parse_fn(self, d):
        tid = d["id"]
        fn = "pv_parse_" + c_ident(tid)
        L = ["static void %s(std::vector<uint8_t> const& bytes, pv::Out& o) {" % fn]
        if d["kind"] == "struct_declaration":
            L += ["    pdl::packet::slice span = pv::make_slice(bytes);",
                  "    %s::%s out;" % (self.ns, tid),
                  "    if (!%s::%s::Parse(span, &out)) { o.raw(\"{\\\"valid\\\":false}\"); return; }" % (self.ns, tid),
                  "    o.raw(\"{\\\"valid\\\":true,\\\"consumed\\\":\"); o.u64(bytes.size() - span.size());",
                  "    o.raw(\",\\\"value\\\":\"); pv_put(o, out); o.ch('}');",
                  "}"]
            return fn, "\n".join(L)
        chain = self._chain(d)
        L.append("    pdl::packet::slice input = pv::make_slice(bytes);")
        prev = "input"
        for n, x in enumerate(chain):
            L.append("    %s::%sView v%d = %s::%sView::Create(%s);" % (self.ns, x["id"], n, self.ns, x["id"], prev))
            prev = "v%d" % n
        L.append("    auto const& v = %s;" % prev)
        L.append("    if (!v.IsValid()) { o.raw(\"{\\\"valid\\\":false}\"); return; }")
        L.append("    o.raw(\"{\\\"valid\\\":true,\\\"value\\\":{\");")
        for sec in ("value", "fixed"):
            first = True
            if sec == "fixed":
                L.append("    o.raw(\"},\\\"fixed\\\":{\");")
            for key, fl, s in self._members(d):
                if s != sec:
                    continue
                g = "GetPayload" if key == "payload" else self._getter(d, fl["id"])
                if g is None:
                    self.warnings.append("%s: no accessor found for field %s" % (tid, key))
                    continue
                if not first:
                    L.append("    o.ch(',');")
                first = False
                L.append('    o.key("%s"); pv_put(o, v.%s());' % (key, g))
        L.append("    o.raw(\"}}\");")
        L.append("}")
        return fn, "\n".join(L)

    def _prologue(self):
        return ('#include "%s"\n#include "pv_harness.h"\n' % self.header_name)

    def _parse_sources(self):
        """-> [(file name, text)] : struct printers are repeated in every unit (inline)."""
        structs = [self.dm[t] for t in self.types() if self.dm[t]["kind"] == "struct_declaration"]
        puts = ["namespace %s {" % self.ns]
        for d in structs:
            puts.append("inline void pv_put(pv::Out& o, %s const& v);" % d["id"])
        for d in structs:
            puts.append(self._put_struct(d))
        puts.append("}  // namespace\n")
        puts = "\n".join(puts)
        tys = self.types()
        units = []
        for ci in range(0, max(len(tys), 1), PARSE_CHUNK):
            chunk = tys[ci:ci + PARSE_CHUNK]
            body = [self._prologue(), puts]
            tab = []
            for t in chunk:
                fn, text = self._parse_fn(self.dm[t])
                body.append(text)
                tab.append('    {"%s", &%s},' % (t, fn))
            k = ci // PARSE_CHUNK
            body.append("extern const pv::ParseEntry pv_parse_tab_%d[] = {\n%s\n    {nullptr, nullptr}\n};" % (k, "\n".join(tab)))
            body.append("extern const size_t pv_parse_len_%d = %d;\n" % (k, len(chunk)))
            units.append(("parse_%d.cc" % k, "\n\n".join(body)))
        return units

    # ---------------------------------------------------------------- C++ text: build side
    def _int(self, v, width, what):
        if isinstance(v, bool) or not isinstance(v, int):
            raise Unbuildable("%s: %r is not an integer" % (what, v))
        b = backing(width)
        if v < 0 or v >= (1 << b):
            raise Unbuildable("%s: %r does not fit uint%d_t" % (what, v, b))
        return "static_cast<uint%d_t>(%dULL)" % (b, v)

    def _enum_lit(self, v, type_id, what):
        e = self.dm[type_id]
        raw = self._int(v, e["width"], what)
        return "static_cast<%s::%s>(%s)" % (self.ns, type_id, raw)

    def _elem(self, v, fl, what):
        """C++ expression of one value of the element / typedef type of `fl`"""
        if fl.get("width") is not None and fl.get("type_id") is None:
            return self._int(v, fl["width"], what)
        t = fl["type_id"]
        k = self._kind(t)
        if k == "enum_declaration":
            return self._enum_lit(v, t, what)
        if k == "struct_declaration":
            return self._ctor(self.dm[t], v, what)
        raise Unbuildable("%s: type %s (%s) has no C++ counterpart" % (what, t, k))

    def _elem_type(self, fl):
        if fl.get("width") is not None and fl.get("type_id") is None:
            return "uint%d_t" % backing(fl["width"])
        return "%s::%s" % (self.ns, fl["type_id"])

    def _arg(self, v, fl, what):
        k = fl["kind"]
        if k in ("payload_field", "body_field"):
            if not isinstance(v, list):
                raise Unbuildable("%s: payload must be a list" % what)
            for x in v:
                if isinstance(x, bool) or not isinstance(x, int) or not 0 <= x <= 255:
                    raise Unbuildable("%s: payload byte %r" % (what, x))
            return 'pv::unhex("%s")' % bytes(v).hex()
        if k == "array_field":
            if not isinstance(v, list):
                raise Unbuildable("%s: array must be a list" % what)
            et = self._elem_type(fl)
            els = [self._elem(x, fl, "%s[%d]" % (what, n)) for n, x in enumerate(v)]
            if fl.get("size") is not None:
                if len(v) != fl["size"]:
                    raise Unbuildable("%s: %d elements for std::array<_, %d>" % (what, len(v), fl["size"]))
                if not els:
                    return "std::array<%s, 0>{}" % et
                return "std::array<%s, %d>{{%s}}" % (et, fl["size"], ", ".join(els))
            if et == "uint8_t" and len(v) > 8:
                return 'pv::unhex("%s")' % bytes(v).hex()
            return "std::vector<%s>{%s}" % (et, ", ".join(els))
        opt = fl.get("cond") is not None
        if k == "scalar_field":
            if opt:
                if v is None:
                    return "std::optional<uint%d_t>()" % backing(fl["width"])
                return "std::optional<uint%d_t>(%s)" % (backing(fl["width"]), self._int(v, fl["width"], what))
            return self._int(v, fl["width"], what)
        if k == "typedef_field":
            if opt:
                et = self._elem_type(fl)
                if v is None:
                    return "std::optional<%s>()" % et
                return "std::optional<%s>(%s)" % (et, self._elem(v, fl, what))
            return self._elem(v, fl, what)
        raise Unbuildable("%s: field kind %s" % (what, k))

    def _ctor(self, d, v, what):
        if not isinstance(v, dict):
            raise Unbuildable("%s: %s value must be an object" % (what, d["id"]))
        args = []
        params = self._params(d)
        known = {k for k, _ in params}
        for key, fl in params:
            if key not in v:
                if fl.get("cond") is not None:
                    args.append(self._arg(None, fl, what + "." + key))
                    continue
                raise Unbuildable("%s: member %s missing" % (what, key))
            args.append(self._arg(v[key], fl, what + "." + key))
        extra = [k for k in v if k not in known]
        if extra:
            raise Unbuildable("%s: unexpected members %s" % (what, ",".join(sorted(extra))))
        cls = d["id"] + ("Builder" if d["kind"] == "packet_declaration" else "")
        return "%s::%s(%s)" % (self.ns, cls, ", ".join(args))

    def _ser_sources(self, values):
        self.entries = []
        fns = []
        for t, vs in values.items():
            d = self.dm.get(t)
            for i, v in enumerate(vs):
                err = None
                text = None
                if d is None or d["kind"] not in ("packet_declaration", "struct_declaration"):
                    err = "unknown or excluded type"
                else:
                    try:
                        text = self._ctor(d, v, t)
                    except Unbuildable as x:
                        err = str(x)
                    except CxxError as x:
                        err = str(x)
                self.entries.append((t, i, err))
                k = len(self.entries) - 1
                if err is not None:
                    fns.append("static void pv_ser_%d(pv::Out& o) { o.raw(\"{\\\"unbuildable\\\":true}\"); }" % k)
                else:
                    fns.append("static void pv_ser_%d(pv::Out& o) {\n    auto b = %s;\n    size_t size = b.GetSize();\n"
                               "    std::vector<uint8_t> out;\n    b.Serialize(out);\n    pv::emit_ser(o, out, size);\n}"
                               % (k, text))
        units = []
        for ci in range(0, len(fns), SER_CHUNK):
            k = ci // SER_CHUNK
            chunk = fns[ci:ci + SER_CHUNK]
            body = [self._prologue()] + chunk
            body.append("extern const pv::SerFn pv_ser_tab_%d[] = {\n%s\n    nullptr\n};"
                        % (k, "\n".join("    &pv_ser_%d," % (ci + n) for n in range(len(chunk)))))
            body.append("extern const size_t pv_ser_len_%d = %d;\n" % (k, len(chunk)))
            units.append(("ser_%d.cc" % k, "\n\n".join(body)))
        return units

    # ---------------------------------------------------------------- C++ text: main
    def _main_source(self, nparse, nser):
        L = [self._prologue(), "#include <vector>"]
        for k in range(nparse):
            L.append("extern const pv::ParseEntry pv_parse_tab_%d[]; extern const size_t pv_parse_len_%d;" % (k, k))
        for k in range(nser):
            L.append("extern const pv::SerFn pv_ser_tab_%d[]; extern const size_t pv_ser_len_%d;" % (k, k))
        etab = []
        for e in self.enums():
            d = self.dm[e]
            try:
                b = backing(d["width"])
            except Unbuildable:
                continue
            closed = all(A.tag_kind(t) != "other" for t in d["tags"])
            fn = "pv_enum_" + c_ident(e)
            if closed:
                L.append("static bool %s(uint64_t v) { return %s::IsValid%s(static_cast<uint%d_t>(v)); }"
                         % (fn, self.ns, e, b))
            else:
                # open enums: the backend emits no validity function, every backing value is cast
                L.append("static bool %s(uint64_t v) { (void)static_cast<%s::%s>(static_cast<uint%d_t>(v)); return true; }"
                         % (fn, self.ns, e, b))
            etab.append('    {"%s", &%s, %dULL},' % (e, fn, (1 << b) - 1))
        L.append("static const pv::EnumEntry pv_enum_tab[] = {\n%s\n    {nullptr, nullptr, 0}\n};" % "\n".join(etab))
        L.append("int main(int argc, char** argv) {")
        L.append("    std::vector<pv::ParseEntry> ptab;")
        for k in range(nparse):
            L.append("    ptab.insert(ptab.end(), pv_parse_tab_%d, pv_parse_tab_%d + pv_parse_len_%d);" % (k, k, k))
        L.append("    std::vector<pv::SerChunk> chunks;")
        for k in range(nser):
            L.append("    chunks.push_back(pv::SerChunk{pv_ser_tab_%d, pv_ser_len_%d});" % (k, k))
        L.append("    return pv::run(argc, argv, ptab.data(), ptab.size(), chunks.data(), chunks.size(), pv_enum_tab, %d);"
                 % len(etab))
        L.append("}\n")
        return [("main.cc", "\n".join(L))]

    # ---------------------------------------------------------------- build
    def _compile_unit(self, fname, text, flavour, digest_base):
        flags = FLAVOURS[flavour]
        key = hashlib.sha1((digest_base + "\0" + fname + "\0" + text).encode()).hexdigest()[:20]
        objdir = os.path.join(self.dir, "obj")
        obj = os.path.join(objdir, "%s-%s.o" % (os.path.splitext(fname)[0], key))
        if os.path.exists(obj):
            return obj, 0.0, ""
        srcdir = os.path.join(self.dir, "src-" + flavour)
        os.makedirs(srcdir, exist_ok=True)
        os.makedirs(objdir, exist_ok=True)
        src = os.path.join(srcdir, fname)
        build._write_if_changed(src, text)
        tmp = obj + ".tmp%d" % os.getpid()
        cmd = [CXX] + flags + ["-Wno-everything", "-I", self.dir, "-I", SUPPORT_DIR,
                               "-I", os.path.join(build.REPO, "pdl-compiler", "scripts"),
                               "-c", src, "-o", tmp]
        t0 = time.time()
        p = subprocess.run(cmd, stdout=subprocess.PIPE, stderr=subprocess.STDOUT, timeout=1800)
        dt = time.time() - t0
        out = p.stdout.decode("utf-8", "replace")
        if p.returncode != 0:
            try:
                os.unlink(tmp)
            except OSError:
                pass
            raise CxxError("compile failed (%s): %s\n%s" % (p.returncode, " ".join(cmd), out[-8000:]))
        os.replace(tmp, obj)
        return obj, dt, out

    def build(self, values=None, flavour="asan"):
        """values: {type_id: [json value, ...]} (build-side entries, in dict order). Returns the
        binary path. Entries whose value cannot be written as C++ arguments are kept with an
        error text (see serialize_all) and do not fail the build."""
        if flavour not in FLAVOURS:
            raise CxxError("unknown flavour %r" % flavour)
        if values is not None:
            self.values = {t: list(vs) for t, vs in values.items()}
        if self.header is None:
            self.generate()
        self.warnings = []
        t0 = time.time()
        support = open(os.path.join(SUPPORT_DIR, "pv_harness.h")).read()
        runtime = open(os.path.join(build.REPO, "pdl-compiler", "scripts", "packet_runtime.h")).read()
        base = hashlib.sha1("\0".join([self.header, support, runtime, CXX, " ".join(FLAVOURS[flavour])]).encode()).hexdigest()
        punits = self._parse_sources()
        sunits = self._ser_sources(self.values)
        units = punits + sunits + self._main_source(len(punits), len(sunits))
        total = hashlib.sha1((base + "".join(n + "\0" + t for n, t in units)).encode()).hexdigest()
        binp = os.path.join(self.dir, "harness-" + flavour)
        if self._built_key.get(flavour) == total and os.path.exists(binp):
            self.bins[flavour] = binp
            return binp
        objs = []
        with concurrent.futures.ThreadPoolExecutor(max_workers=JOBS) as ex:
            futs = [ex.submit(self._compile_unit, n, t, flavour, base) for n, t in units]
            errs = []
            for fu in futs:
                try:
                    objs.append(fu.result()[0])
                except CxxError as x:
                    errs.append(str(x))
            if errs:
                raise CxxError("\n".join(errs)[:20000])
        link = [CXX] + [x for x in FLAVOURS[flavour] if x.startswith("-fsanitize") or x.startswith("-g")] + \
               ["-fuse-ld=lld"] + objs + ["-o", binp + ".tmp%d" % os.getpid()]
        p = subprocess.run(link, stdout=subprocess.PIPE, stderr=subprocess.STDOUT, timeout=1800)
        if p.returncode != 0:
            raise CxxError("link failed: %s\n%s" % (" ".join(link[:6]), p.stdout.decode("utf-8", "replace")[-6000:]))
        os.replace(binp + ".tmp%d" % os.getpid(), binp)
        self._prune(objs)
        self.bins[flavour] = binp
        self._built_key[flavour] = total
        self.timings["build:" + flavour] = time.time() - t0
        return binp

    def _prune(self, keep, limit=400):
        objdir = os.path.join(self.dir, "obj")
        try:
            ents = [os.path.join(objdir, e) for e in os.listdir(objdir)]
        except OSError:
            return
        if len(ents) <= limit:
            return
        keep = set(keep)
        ents = sorted((e for e in ents if e not in keep), key=lambda e: os.path.getmtime(e))
        for e in ents[:len(ents) - limit // 2]:
            try:
                os.unlink(e)
            except OSError:
                pass

    def clean(self):
        shutil.rmtree(self.dir, ignore_errors=True)
        self.bins = {}
        self._built_key = {}

    def _bin(self, flavour):
        b = self.bins.get(flavour)
        if b is None or not os.path.exists(b):
            b = self.build(None, flavour)
        return b

    # ---------------------------------------------------------------- running
    def _env(self, leak_each=False):
        env = dict(os.environ)
        env["ASAN_OPTIONS"] = ASAN_OPTIONS
        env["UBSAN_OPTIONS"] = UBSAN_OPTIONS
        env["ASAN_SYMBOLIZER_PATH"] = shutil.which("llvm-symbolizer-14") or shutil.which("llvm-symbolizer") or ""
        env["PV_LEAKCHECK"] = "1" if leak_each else "0"
        return env

    def _stream(self, argv, stdin_path, env, timeout, startup):
        """Run one driver process. -> (results {k: line}, open_k, state, rc, stderr text) with
        state in done / died / timeout / oom."""
        errf = tempfile.TemporaryFile(dir=self.dir)
        inf = open(stdin_path, "rb") if stdin_path else subprocess.DEVNULL
        try:
            p = subprocess.Popen(argv, stdin=inf, stdout=subprocess.PIPE, stderr=errf,
                                 preexec_fn=_limits(), env=env, cwd=self.dir)
        except OSError as x:
            raise CxxError("cannot start %s: %s" % (argv[0], x))
        finally:
            if stdin_path:
                inf.close()
        fd = p.stdout.fileno()
        buf = b""
        results = {}
        open_k = None
        t_mark = time.time()
        state = None
        done = False
        while True:
            limit = timeout if open_k is not None else startup
            left = t_mark + limit - time.time()
            if left <= 0:
                state = "timeout"
                break
            r, _, _ = select.select([fd], [], [], min(left, 0.25))
            if not r:
                if _rss_mb(p.pid) > RSS_LIMIT_MB:
                    state = "oom"
                    break
                continue
            chunk = os.read(fd, 1 << 16)
            if not chunk:
                break
            buf += chunk
            while b"\n" in buf:
                line, buf = buf.split(b"\n", 1)
                if line.startswith(b"BEGIN "):
                    open_k = int(line[6:])
                    t_mark = time.time()
                elif line == b"DONE":
                    done = True
                    open_k = None
                    t_mark = time.time()
                elif open_k is not None:
                    results[open_k] = line
                    open_k = None
                    t_mark = time.time()
        if state in ("timeout", "oom"):
            try:
                p.kill()
            except Exception:
                pass
        try:
            rc = p.wait(timeout=30)
        except Exception:
            p.kill()
            rc = p.wait()
        p.stdout.close()
        errf.seek(0)
        err = errf.read().decode("utf-8", "replace")
        errf.close()
        if state is None:
            state = "done" if (done and open_k is None) else "died"
        return results, open_k, state, rc, err

    def _run_entries(self, mode, n, stdin_lines, flavour, valgrind, timeout):
        """Drive `parse` / `ser` over entries 0..n-1 with restarts. -> list of raw results:
        bytes (JSON line) or crash dict."""
        binp = self._bin(flavour)
        out = [None] * n
        start = 0
        leak_each = False
        spins = 0
        os.makedirs(self.dir, exist_ok=True)
        while start < n:
            spins += 1
            if spins > 2 * n + 8:
                raise CxxError("driver restarts do not make progress")
            stdin_path = None
            if stdin_lines is not None:
                fd, stdin_path = tempfile.mkstemp(dir=self.dir, prefix="in-", suffix=".txt")
                with os.fdopen(fd, "w") as f:
                    f.write("".join(stdin_lines[start:]))
            argv = [binp, mode, str(start)]
            if valgrind:
                argv = VALGRIND + argv
            try:
                res, open_k, state, rc, err = self._stream(argv, stdin_path, self._env(leak_each),
                                                          timeout * (6 if valgrind else 1),
                                                          startup=60.0 if valgrind else 30.0)
            finally:
                if stdin_path:
                    try:
                        os.unlink(stdin_path)
                    except OSError:
                        pass
            got = [k for k in res if start <= k < n]
            for k in got:
                out[k] = res[k]
            last = max(got) if got else start - 1
            if state == "done" and open_k is None:
                leaked = rc != 0 and ("LeakSanitizer" in err)
                if leaked and not leak_each and flavour.startswith("asan") and not valgrind:
                    # leaks are reported at exit: run again checking after every entry
                    leak_each = True
                    continue
                if rc != 0:
                    self.exit_reports.append({"mode": mode, "flavour": flavour, "returncode": rc,
                                              "report": err[-8000:]})
                missing = [k for k in range(start, n) if out[k] is None]
                if missing:
                    raise CxxError("driver ended without results for entries %s\n%s" % (missing[:5], err[-2000:]))
                break
            if open_k is None:
                # died (or hung) outside an entry
                if not got:
                    raise CxxError("driver failed outside any entry (state %s, rc %s):\n%s" % (state, rc, err[-4000:]))
                self.exit_reports.append({"mode": mode, "flavour": flavour, "returncode": rc,
                                          "report": err[-8000:], "after": last})
                start = last + 1
                continue
            crash = classify(err, rc, state == "timeout", self.header_name, valgrind=valgrind)
            if state == "oom":
                crash["kind"] = "oom"
            if crash.get("kind") == "timeout" and stdin_lines is not None and open_k < n and not getattr(self, "_in_retry", False):
                # a deadline that passes on a loaded machine is not yet a hang: the entry is run once
                # more, alone, with a deadline six times longer
                self._in_retry = True
                try:
                    fd2, sp2 = tempfile.mkstemp(dir=self.dir, prefix="in1-", suffix=".txt")
                    with os.fdopen(fd2, "w") as f2:
                        f2.write(stdin_lines[open_k])
                    try:
                        res2, open2, state2, rc2, err2 = self._stream([binp, mode, str(open_k)], sp2, self._env(leak_each),
                                                                      timeout * 6, startup=60.0)
                    finally:
                        os.unlink(sp2)
                finally:
                    self._in_retry = False
                if open_k in res2:
                    out[open_k] = res2[open_k]
                    self.slow_retries = getattr(self, "slow_retries", 0) + 1
                    start = open_k + 1
                    continue
                crash = classify(err2, rc2, state2 == "timeout", self.header_name, valgrind=valgrind)
                crash["confirmed_alone"] = True
            if open_k < n:
                out[open_k] = {"crash": crash}
            start = open_k + 1
        return out

    def serialize_all(self, flavour="asan", valgrind=False):
        """-> one entry per (type, i) of the last build(): {"type", "i", "hex", "size"} |
        {"type", "i", "crash": {...}} | {"type", "i", "error": text} (value not expressible
        through the generated constructors; nothing was run)."""
        if valgrind and flavour.startswith("asan"):
            flavour = "plain"
        self._bin(flavour)
        n = len(self.entries)
        raw = self._run_entries("ser", n, None, flavour, valgrind, TIMEOUT) if n else []
        out = []
        for (t, i, err), r in zip(self.entries, raw):
            e = {"type": t, "i": i}
            if err is not None:
                e["error"] = err
            elif isinstance(r, dict):
                e.update(r)
            else:
                try:
                    e.update(json.loads(r))
                except Exception:
                    e["garbled"] = r[:200].decode("utf-8", "replace")
            out.append(e)
        return out

    def parse(self, type_id, inputs, flavour="asan", valgrind=False, timeout=TIMEOUT):
        """inputs: list of bytes -> list of {"valid": bool, "value": ..., ["fixed": {...}],
        ["consumed": n]} | {"crash": {...}}"""
        if valgrind and flavour.startswith("asan"):
            flavour = "plain"
        if type_id not in self.dm or self.dm[type_id]["kind"] not in ("packet_declaration", "struct_declaration"):
            raise CxxError("unknown type %r" % type_id)
        return self.parse_many([(type_id, b) for b in inputs], flavour, valgrind, timeout)

    def parse_many(self, pairs, flavour="asan", valgrind=False, timeout=TIMEOUT):
        """pairs: [(type_id, bytes)] — one driver run over inputs of several types"""
        if valgrind and flavour.startswith("asan"):
            flavour = "plain"
        lines = ["%s %s\n" % (t, bytes(b).hex()) for t, b in pairs]
        raw = self._run_entries("parse", len(lines), lines, flavour, valgrind, timeout) if lines else []
        out = []
        for r in raw:
            if isinstance(r, dict):
                out.append(r)
                continue
            try:
                out.append(json.loads(r))
            except Exception:
                out.append({"garbled": r[:200].decode("utf-8", "replace")})
        return out

    def enum_is_valid(self, enum_id, lo, hi, flavour="asan", timeout=120.0):
        """run-length encoded generated validity over [lo, hi]: [[start, end, bool], ...].
        Closed enums: IsValid<Enum>(backing type); open enums have no generated check (always
        true); integers the backing type cannot hold are reported false."""
        if enum_id not in self.enums():
            raise CxxError("unknown enum %r" % enum_id)
        binp = self._bin(flavour)
        try:
            p = subprocess.run([binp, "enum", enum_id, str(lo), str(hi)], stdout=subprocess.PIPE,
                               stderr=subprocess.PIPE, env=self._env(), timeout=timeout, cwd=self.dir)
        except subprocess.TimeoutExpired:
            raise CxxError("enum scan timed out")
        if p.returncode != 0:
            raise CxxError("enum scan failed (%s):\n%s" % (p.returncode, p.stderr.decode("utf-8", "replace")[-4000:]))
        return json.loads(p.stdout.decode())
