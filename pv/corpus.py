"""Workload corpora: generated descriptions (both endiannesses) per (seed, tier)."""
from __future__ import annotations

import os

from . import ast as A
from . import gen, render


def seed():
    return int(os.environ.get("VERIF_SEED", "1"))


def tier(default="quick"):
    return os.environ.get("VERIF_TIER", default)


def descriptions(seed, n_per_profile, profiles=None, start=0, shuffle=True):
    """-> list of {'name','file','text','profile','features','twin','gen_seed'}; LE/BE twins
    are adjacent (d2k little-endian, d2k+1 big-endian)."""
    out = []
    k = start
    if os.environ.get("VERIF_PROFILES"):   # development aid: restrict every workload to some profiles
        profiles = [p for p in (profiles or gen.PROFILES) if p in os.environ["VERIF_PROFILES"].split(",")]
    for p in (profiles or gen.PROFILES):
        for j in range(max(n_per_profile, gen.PROFILE_MIN.get(p, 0))):
            g = gen.generate("%d.%d" % (seed, j), p, shuffle=shuffle)
            for e in (A.LE, A.BE):
                f = A.with_endianness(g["file"], e)
                text, _ = render.render(f)
                out.append({"name": "d%d" % k, "file": f, "text": text, "profile": p,
                            "features": g["features"], "gen_seed": "%d.%d" % (seed, j),
                            "twin": "d%d" % (k + 1 if e == A.LE else k - 1)})
                k += 1
    return out
