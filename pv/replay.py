"""./verif replay <path> — re-run the cases of a replay file against the current tree and show
what the implementation answers now next to what was recorded. Exit 1 if at least one case still
shows the recorded failing observation, 0 otherwise."""
from __future__ import annotations

import json
import sys

from . import ast as A
from .engines.driver import Driver, analyze_ok, codes, panic_of


def strip(o):
    if isinstance(o, dict):
        return {k: strip(v) for k, v in o.items() if k not in ("ns", "alloc_peak", "alloc_largest", "elapsed", "id", "loc")}
    if isinstance(o, list):
        return [strip(x) for x in o]
    return o


def replay_rust(case):
    from .engines.rs import RustCorpus
    drv = Driver()
    r = drv.request(case["pdl"], ["parse"])
    drv.close()
    f = A.strip_loc(r["parse"]["ok"])
    rc = RustCorpus("replay", [{"name": "d0", "file": f, "text": case["pdl"], "profile": "replay", "gen_seed": "0"}])
    rc.generate()
    fl = case.get("flavour", "dev")
    rc.build(fl)
    cl = rc.client(fl)
    req = {"d": "d0", "t": case["type"], "op": case["op"], "cap": 1 << 31}
    if "hex" in case:
        req["hex"] = case["hex"]
    if "value" in case:
        req["value"] = case["value"]
    out = cl.call(req)
    cl.close()
    return out


def replay_python(case):
    from .engines.py import PyHarness
    drv = Driver()
    r = drv.request(case["pdl"], ["parse"])
    drv.close()
    f = A.strip_loc(r["parse"]["ok"])
    h = PyHarness("replay", f, case["pdl"])
    h.generate()
    req = {"op": case["op"], "t": case["type"]}
    if "hex" in case:
        req["hex"] = case["hex"]
    if "value" in case:
        req["value"] = case["value"]
    out = h.call(req)
    h.close()
    return out


def replay_source(case):
    drv = Driver(timeout=120)
    src = case.get("source") or case.get("text")
    r = drv.request(src, ["analyze", "gen:json", "gen:rust", "gen:python", "gen:cxx"])
    drv.close()
    return {"analyze_ok": analyze_ok(r), "codes": codes(r), "panic": panic_of(r),
            "crash": r.get("crash"), "timeout": r.get("timeout")}


def main():
    path = sys.argv[1]
    j = json.load(open(path))
    sig = j["signature"]
    print("signature:", sig)
    still = 0
    for case in j["cases"]:
        try:
            if "|rust|" in sig and "pdl" in case and "op" in case:
                now = replay_rust(case)
            elif "|python|" in sig and "pdl" in case and "op" in case:
                now = replay_python(case)
            elif case.get("source") or case.get("text"):
                now = replay_source(case)
            else:
                print("case cannot be replayed mechanically; recorded:", json.dumps(case)[:1500])
                continue
        except Exception as e:  # noqa
            print("replay failed:", e)
            continue
        rec = case.get("observed")
        print("recorded :", json.dumps(rec, default=str)[:1200])
        print("now      :", json.dumps(strip(now), default=str)[:1200])
        s_now = json.dumps(strip(now), sort_keys=True, default=str)
        s_rec = json.dumps(strip(rec), sort_keys=True, default=str) if rec is not None else ""
        if rec is not None and (s_rec in s_now or s_rec == s_now):
            still += 1
    print("cases still showing the recorded observation: %d of %d" % (still, len(j["cases"])))
    return 1 if still else 0


if __name__ == "__main__":
    sys.exit(main())
