"""Description generator G(seed, profile).

Produces analyzer-valid descriptions aimed at what the pinned suite never runs: optional
fields, padding, element sizes, size modifiers, 33..64-bit chunks, enum ranges, multi-level
constraints, struct inheritance. Every description is valid *by construction*; checks
additionally confirm acceptance with the real analyzer (a refusal is a C09 event).

Decoding constraints honoured so that values round-trip (C02's "round-trippable class"):
 - every variable-length part is delimited (size / count / static count / padding+size|count /
   element size) or is the last thing in its scope ("greedy");
 - a greedy struct is only used last in a scope or as element of an element-size array.
"""
from __future__ import annotations

import random

from . import ast as A

PROFILES = ["bitfield", "array", "payload", "optional", "inherit", "enum", "groups", "small",
            "mix", "structs", "hostile", "matrix"]
# descriptions per unit of n_per_profile (the matrix profile has four fixed parts)
PROFILE_MIN = {"matrix": 6}   # at least one description per part, whatever the tier

SCALAR_WIDTHS = [1, 2, 3, 4, 5, 7, 8, 8, 9, 12, 15, 16, 16, 17, 23, 24, 24, 25, 31, 32, 32, 33, 40,
                 47, 48, 55, 56, 57, 63, 64]
BYTE_WIDTHS = [8, 8, 16, 16, 24, 32, 40, 48, 56, 64]
ENUM_BYTE_WIDTHS = [8, 16, 24, 24, 32, 40, 48, 56, 64]

# identifiers that exercise lexing edges (keyword prefixes) but are legal
ODD_NAMES = ["enumx", "packet_", "structure", "groupie", "testy", "iff", "custom_fieldx", "checksums",
             "little", "r0", "Z_9", "a_b_c"]


class Ctx:
    def __init__(self, rng, profile, index=0):
        self.rng = rng
        self.profile = profile
        self.index = index
        self.tame = False        # only constructs every backend's generator copes with (matrix profile)
        self.decls = []
        self.n = 0
        self.features = set()
        self.enums = []          # (id, width)
        self.structs = {}        # id -> kind: 'static' | 'dynamic' | 'greedy'
        self.struct_bytes = {}   # id -> static byte size
        self.customs = []        # (id, width)
        self.odd = list(ODD_NAMES)
        rng.shuffle(self.odd)

    def uid(self, prefix):
        self.n += 1
        return "%s%d" % (prefix, self.n)

    def fid(self):
        if self.odd and self.rng.random() < 0.04:
            return self.odd.pop()
        return self.uid("f")


def pick_width(rng, maxw=64, minw=1):
    c = [w for w in SCALAR_WIDTHS if minw <= w <= maxw]
    return rng.choice(c) if c else minw


# ---------------------------------------------------------------- enums
def gen_enum(ctx, width=None, shape=None, first_ok=True):
    rng = ctx.rng
    if width is None:
        width = rng.choice([1, 2, 3, 4, 7, 8, 8, 8, 9, 16, 16, 24, 32, 33, 48, 63, 64])
    m = (1 << width) - 1
    is_open = rng.random() < 0.4 if shape is None else shape.get("open", False)
    want_ranges = (rng.random() < 0.45 if shape is None else shape.get("ranges", False)) and m >= 7
    complete = (rng.random() < 0.25 if shape is None else shape.get("complete", False)) and width <= 6
    eid = ctx.uid("E")
    tags = []
    tn = [0]

    def tname():
        tn[0] += 1
        return "T%d_%s" % (tn[0], eid)
    used = set()
    if complete:
        # tile [0, m] with values and ranges
        x = 0
        while x <= m:
            if want_ranges and m - x >= 1 and rng.random() < 0.4:
                e = min(m, x + rng.randint(1, 4))
                nested = []
                for v in range(x, e + 1):
                    if rng.random() < 0.3:
                        nested.append(A.tag(tname(), v))
                tags.append(A.tag_range(tname(), x, e, nested))
                x = e + 1
            else:
                tags.append(A.tag(tname(), x))
                x += 1
    else:
        # boundary-heavy picks
        cand = [0, 1, m, m - 1, m // 2, 2, 3]
        cand += [rng.randint(0, m) for _ in range(6)]
        cand += [1 << k for k in range(0, width, max(1, width // 5))]
        cand = [c for c in cand if 0 <= c <= m]
        if ctx.tame:
            cand = [c for c in cand if c < (1 << 31)] or [0, 1, 2]
        rng.shuffle(cand)
        nvals = rng.randint(1, min(6, m + 1))
        ranges = []
        if want_ranges:
            for _ in range(rng.randint(1, 3)):
                s = rng.choice([0, rng.randint(0, m), m - rng.randint(1, min(m, 40))])
                s = max(0, min(s, m - 1))
                e = min(m, s + rng.choice([1, 2, 3, 9, 15, 255, rng.randint(1, 1000)]))
                if e <= s or (ctx.tame and e >= (1 << 31)):
                    continue
                if any(not (e < rs or s > re) for rs, re in ranges):
                    continue
                ranges.append((s, e))
        for (s, e) in ranges:
            nested = []
            for v in sorted(set([s, e, (s + e) // 2, s + 1])):
                if s <= v <= e and rng.random() < 0.35 and v not in used:
                    nested.append(A.tag(tname(), v))
                    used.add(v)
            tags.append(A.tag_range(tname(), s, e, nested))
        for c in cand:
            if nvals <= 0:
                break
            if c in used or any(s <= c <= e for s, e in ranges):
                continue
            used.add(c)
            tags.append(A.tag(tname(), c))
            nvals -= 1
        if not tags:
            tags.append(A.tag(tname(), 0))
        rng.shuffle(tags)
    if is_open:
        # the default tag may be written anywhere in the list, not only last
        if rng.random() < 0.5:
            tags.insert(rng.randint(0, len(tags)), A.tag_other(tname()))
        else:
            tags.append(A.tag_other(tname()))
    d = A.enum(eid, width, tags)
    ctx.decls.append(d)
    ctx.enums.append((eid, width))
    if want_ranges:
        ctx.features.add("enum_ranges")
    if is_open:
        ctx.features.add("enum_open")
    return eid, width


def some_enum(ctx, byte_sized=False, maxw=64):
    rng = ctx.rng
    c = [(i, w) for i, w in ctx.enums if w <= maxw and (not byte_sized or w % 8 == 0)]
    if c and rng.random() < 0.6:
        return rng.choice(c)
    if byte_sized:
        ws = [w for w in ENUM_BYTE_WIDTHS if w <= maxw]
        return gen_enum(ctx, width=rng.choice(ws))
    ws = [w for w in [1, 2, 3, 4, 7, 8, 8, 9, 16, 24, 32, 33, 63, 64] if w <= maxw]
    return gen_enum(ctx, width=rng.choice(ws))


def named_tags(d):
    """tags usable in constraints and fixed fields: the analyzer only resolves top-level
    value tags there (tags nested in a range are refused with E20 / E34)."""
    return [t for t in d["tags"] if A.tag_kind(t) == "value"]


# ---------------------------------------------------------------- bodies
class Body:
    """Accumulates fields keeping track of the current bit-field run."""

    def __init__(self, ctx):
        self.ctx = ctx
        self.fields = []
        self.run = 0      # bits in the open chunk
        self.flags = []   # ids of 1-bit scalars usable as condition

    def room(self):
        return 64 - self.run

    def add_bits(self, fl, w):
        assert w <= self.room(), (w, self.run)
        self.fields.append(fl)
        self.run += w
        if self.run % 8 == 0:
            self.run = 0

    def align(self):
        """close the current chunk on a byte boundary with filler bits"""
        rng = self.ctx.rng
        if self.run % 8 == 0:
            self.run = 0
            return
        if self.ctx.tame:
            w = 8 - self.run % 8
            self.add_bits(A.reserved(w), w)
            return
        need = 8 - self.run % 8
        extra = 0
        if rng.random() < 0.2 and self.run + need + 8 <= 64:
            extra = 8 * rng.randint(0, (64 - self.run - need) // 8)
        w = need + extra
        k = rng.random()
        if k < 0.5:
            self.add_bits(A.reserved(w), w)
        elif k < 0.85:
            self.add_bits(A.scalar(self.ctx.fid(), w), w)
        else:
            self.add_bits(A.fixed_scalar(rng.randint(0, (1 << w) - 1), w), w)
        assert self.run == 0

    def ensure_room(self, w):
        if w > self.room():
            self.align()

    # ---- bit-field members
    def scalar(self, w=None):
        rng = self.ctx.rng
        if w is None:
            w = pick_width(rng)
        self.ensure_room(w)
        i = self.ctx.fid()
        self.add_bits(A.scalar(i, w), w)
        return i

    def flag(self):
        self.ensure_room(1)
        i = self.ctx.fid()
        self.add_bits(A.scalar(i, 1), 1)
        self.flags.append(i)
        return i

    def enum_field(self):
        eid, w = some_enum(self.ctx)
        self.ensure_room(w)
        i = self.ctx.fid()
        self.add_bits(A.typedef(i, eid), w)
        return i

    def fixed(self):
        rng = self.ctx.rng
        if rng.random() < 0.5 and self.ctx.enums:
            eid, w = rng.choice(self.ctx.enums)
            nt = named_tags(self.ctx_decl(eid))
            if nt:
                self.ensure_room(w)
                self.add_bits(A.fixed_enum(rng.choice(nt)["id"], eid), w)
                return
        w = pick_width(rng)
        self.ensure_room(w)
        m = (1 << w) - 1
        v = rng.choice([0, 1, m, m - 1 if m else 0, rng.randint(0, m)])
        self.add_bits(A.fixed_scalar(v, w), w)

    def reserved(self):
        w = pick_width(self.ctx.rng)
        self.ensure_room(w)
        self.add_bits(A.reserved(w), w)

    def ctx_decl(self, id):
        for d in self.ctx.decls:
            if d.get("id") == id:
                return d
        raise KeyError(id)

    def random_bits(self, n=1):
        rng = self.ctx.rng
        if self.ctx.tame:
            for _ in range(n):
                self.align()
                self.scalar(rng.choice([8, 16, 32]))
            return
        for _ in range(n):
            k = rng.random()
            if k < 0.5:
                self.scalar()
            elif k < 0.7:
                self.enum_field()
            elif k < 0.85:
                self.fixed()
            else:
                self.reserved()

    def header(self, kind, target, w):
        """size / count / elementsize field for target"""
        self.ensure_room(w)
        fl = {"size": A.size_f, "count": A.count_f, "elementsize": A.elementsize_f}[kind](target, w)
        self.add_bits(fl, w)

    def maybe_noise(self, p=0.4):
        if self.ctx.rng.random() < p:
            self.random_bits(self.ctx.rng.randint(1, 2))


def hdr_width(rng, hostile=False):
    if hostile:
        return rng.choice([1, 8, 16, 31, 32, 33, 48, 63, 64])
    return rng.choice([1, 2, 3, 4, 5, 7, 8, 8, 8, 9, 12, 16, 16, 24, 32])


def gen_struct(ctx, kind, depth=0):
    """kind: static | dynamic | greedy"""
    rng = ctx.rng
    sid = ctx.uid("S")
    b = Body(ctx)
    n = rng.randint(1, 3)
    for _ in range(n):
        fill_item(ctx, b, depth + 1, static_only=(kind == "static"))
    if kind == "dynamic":
        add_array(ctx, b, depth + 1, shapes=["count", "size"], elems=["u8", "scalar", "enum", "static"])
        if rng.random() < 0.4:
            b.random_bits(1)
    elif kind == "greedy":
        b.align()
        if rng.random() < 0.7:
            w = rng.choice([8, 8, 16, 32])
            b.fields.append(A.array(ctx.fid(), width=w))
        else:
            s2 = some_struct(ctx, "static", depth + 1)
            b.fields.append(A.array(ctx.fid(), type_id=s2))
    b.align()
    ctx.decls.append(A.struct(sid, b.fields))
    ctx.structs[sid] = kind
    return sid


def some_struct(ctx, kind, depth=0):
    rng = ctx.rng
    c = [i for i, k in ctx.structs.items() if k == kind]
    if c and (rng.random() < 0.5 or depth >= 2):
        return rng.choice(c)
    return gen_struct(ctx, kind, depth)


def some_custom(ctx):
    rng = ctx.rng
    if ctx.customs and rng.random() < 0.5:
        return rng.choice(ctx.customs)
    w = rng.choice([8, 16, 24, 32, 40, 64])
    cid = ctx.uid("Cust")
    ctx.decls.append(A.custom_field(cid, w, cid))
    ctx.customs.append((cid, w))
    ctx.features.add("custom")
    return cid, w


def fill_item(ctx, b, depth, static_only=False):
    """one random static-friendly item"""
    rng = ctx.rng
    k = rng.random()
    if k < 0.55:
        b.random_bits(1)
    elif k < 0.7:
        # static array
        b.align()
        add_array(ctx, b, depth, shapes=["static"], elems=["u8", "scalar", "enum", "static"], allow_pad=False)
    elif k < 0.8 and depth < 3:
        b.align()
        s = some_struct(ctx, "static", depth)
        b.fields.append(A.typedef(ctx.fid(), s))
    elif k < 0.85 and ctx.profile in ("mix", "structs", "array"):
        b.align()
        cid, w = some_custom(ctx)
        b.fields.append(A.typedef(ctx.fid(), cid))
    elif not static_only and k < 0.93 and depth < 3:
        b.align()
        s = some_struct(ctx, "dynamic", depth)
        b.fields.append(A.typedef(ctx.fid(), s))
    else:
        b.random_bits(1)


def add_array(ctx, b, depth, shapes, elems, allow_pad=True, hostile=False, allow_es=True, es_force=None,
              pad_force=None, modifier=None, width=None):
    """Append header field(s) + an array field (+ padding). es_force / pad_force: None = random."""
    rng = ctx.rng
    aid = ctx.fid()
    shape = rng.choice(shapes)
    elem = rng.choice(elems)
    width = None
    type_id = None
    es = False
    elem_static_bytes = None
    if elem == "u8":
        width = 8
        elem_static_bytes = 1
    elif elem == "scalar":
        width = width or rng.choice([16, 16, 24, 32, 40, 48, 56, 64])
        elem_static_bytes = width // 8
    elif elem == "enum":
        if width:
            type_id, w = gen_enum(ctx, width=width)
            width = None
        else:
            type_id, w = some_enum(ctx, byte_sized=True)
        elem_static_bytes = w // 8
        ctx.features.add("enum_array")
    elif elem == "static":
        type_id = some_struct(ctx, "static", depth)
    elif elem == "dynamic":
        type_id = some_struct(ctx, "dynamic", depth)
        es = allow_es and rng.random() < 0.35
        if es_force is not None:
            es = es_force
    elif elem == "greedy":
        type_id = some_struct(ctx, "greedy", depth)
        es = True
    elif elem == "custom":
        type_id, w = some_custom(ctx)
        elem_static_bytes = w // 8
    if es:
        ctx.features.add("elementsize")
    # headers
    hdrs = []
    if shape == "count":
        hdrs.append(("count", hdr_width(rng, hostile)))
    elif shape == "size":
        hdrs.append(("size", min(63, hdr_width(rng, hostile))))
    if es:
        hdrs.append(("elementsize", rng.choice([4, 8, 8, 16])))
    rng.shuffle(hdrs)
    for kind, w in hdrs:
        b.maybe_noise(0.3)
        b.header(kind, aid, w)
    b.maybe_noise(0.2)
    b.align()
    size = None
    if shape == "static":
        size = rng.choice([1, 2, 3, 4, 5, 8, 16, 31, 32]) if elem in ("u8", "scalar", "enum") else rng.choice([1, 2, 3, 4])
    b.fields.append(A.array(aid, width=width, type_id=type_id, size=size,
                            size_modifier=("+%d" % modifier) if modifier and shape == "size" else None))
    if modifier and shape == "size":
        ctx.features.add("array_size_modifier")
    want_pad = (rng.random() < 0.3) if pad_force is None else pad_force
    if allow_pad and shape in ("count", "size", "static") and want_pad:
        if shape == "static" and elem_static_bytes is not None:
            pad = size * elem_static_bytes + rng.choice([0, 1, 3, 8])
        else:
            pad = rng.choice([1, 2, 4, 8, 15, 16, 32, 40, 100])
        b.fields.append(A.padding(pad))
        ctx.features.add("padding")
    return aid


def add_optional(ctx, b, depth, n=None):
    rng = ctx.rng
    n = n or rng.randint(1, 4)
    # flags first (possibly shared), in one or two chunks
    specs = []
    flags = []
    for _ in range(n):
        if flags and rng.random() < 0.25:
            fl = rng.choice(flags)   # shared flag
            ctx.features.add("shared_flag")
        else:
            b.maybe_noise(0.3)
            fl = b.flag()
            flags.append(fl)
        specs.append((fl, rng.choice([0, 1, 1])))
    b.align()
    for fl, cv in specs:
        i = ctx.fid()
        k = rng.random()
        cond = A.constraint(fl, value=cv)
        if k < 0.45:
            b.fields.append(A.scalar(i, rng.choice(BYTE_WIDTHS), cond=cond))
        elif k < 0.7:
            eid, w = some_enum(ctx, byte_sized=True)
            b.fields.append(A.typedef(i, eid, cond=cond))
        else:
            s = some_struct(ctx, rng.choice(["static", "static", "dynamic"]), depth + 1)
            b.fields.append(A.typedef(i, s, cond=cond))
        if rng.random() < 0.3:
            b.random_bits(1)
            b.align()
    ctx.features.add("optional")


def add_payload(ctx, b, body=False, sized=None, modifier=None, hostile=False):
    rng = ctx.rng
    if sized is None:
        sized = rng.random() < 0.6
    tgt = "_body_" if body else "_payload_"
    if sized:
        b.maybe_noise(0.3)
        b.header("size", tgt, min(63, hdr_width(rng, hostile)))
        b.maybe_noise(0.3)
    b.align()
    if body:
        b.fields.append(A.body())
    else:
        if modifier is None:
            modifier = rng.choice([None, None, None, 1, 2, 7]) if sized else None
        b.fields.append(A.payload("+%d" % modifier if modifier else None))
        if modifier:
            ctx.features.add("payload_modifier")
    return sized


def trailing_static(ctx, b, n=None):
    rng = ctx.rng
    for _ in range(n if n is not None else rng.randint(1, 2)):
        b.random_bits(1)
    b.align()


# ---------------------------------------------------------------- profiles
def p_bitfield(ctx):
    rng = ctx.rng
    for _ in range(rng.randint(3, 5)):
        b = Body(ctx)
        # one or several chunks of random partitions
        for _ in range(rng.randint(1, 4)):
            total = rng.choice([8, 16, 24, 32, 40, 48, 56, 64])
            left = total
            while left > 0:
                w = min(left, pick_width(rng, maxw=left))
                k = rng.random()
                if k < 0.5:
                    b.add_bits(A.scalar(ctx.fid(), w), w)
                elif k < 0.65:
                    c = [(i, ww) for i, ww in ctx.enums if ww == w]
                    if c and rng.random() < 0.5:
                        eid = rng.choice(c)[0]
                    else:
                        eid, _ = gen_enum(ctx, width=w)
                    b.add_bits(A.typedef(ctx.fid(), eid), w)
                elif k < 0.8:
                    m = (1 << w) - 1
                    b.add_bits(A.fixed_scalar(rng.choice([0, m, rng.randint(0, m)]), w), w)
                else:
                    b.add_bits(A.reserved(w), w)
                left -= w
            assert b.run == 0
        kind = A.packet if rng.random() < 0.7 else A.struct
        ctx.decls.append(kind(ctx.uid("P"), b.fields))
    # a size / count inside odd positions of a chunk
    for _ in range(2):
        b = Body(ctx)
        b.random_bits(rng.randint(0, 2))
        add_array(ctx, b, 0, shapes=["count", "size"], elems=["u8", "scalar"], allow_pad=False)
        ctx.decls.append(A.packet(ctx.uid("P"), b.fields))


def p_array(ctx):
    rng = ctx.rng
    elems = ["u8", "scalar", "scalar", "enum", "static", "dynamic", "dynamic", "greedy", "custom"]
    for _ in range(rng.randint(5, 8)):
        b = Body(ctx)
        b.maybe_noise(0.4)
        nar = rng.randint(1, 2)
        for j in range(nar):
            last = (j == nar - 1)
            shapes = ["static", "count", "count", "size", "size"]
            if last:
                shapes.append("unknown")
            el = rng.choice(elems)
            sh = rng.choice(shapes)
            if el == "greedy" and sh == "unknown" and not last:
                sh = "size"
            if sh == "unknown":
                add_array(ctx, b, 0, shapes=["unknown"], elems=[el], allow_pad=False)
                break
            add_array(ctx, b, 0, shapes=[sh], elems=[el])
            b.maybe_noise(0.3)
        b.align()
        kind = A.packet if rng.random() < 0.7 else A.struct
        ctx.decls.append(kind(ctx.uid("P"), b.fields))


def p_reserved_tail(ctx):
    """octets that hold nothing but reserved bits *after* a dynamically sized field (and after an earlier,
    longer static run): their length guard is the only code a parser has to emit for them"""
    rng = ctx.rng
    for shape, tail in (("size", [8]), ("count", [8, 8]), ("size", [16]), ("payload", [8])):
        b = Body(ctx)
        b.scalar(rng.choice([16, 24, 32]))
        b.align()
        if shape == "payload":
            add_payload(ctx, b, sized=True, modifier=0)
        else:
            add_array(ctx, b, 0, shapes=[shape], elems=[rng.choice(["u8", "scalar"])], allow_pad=False)
        b.align()
        for w in tail:
            b.add_bits(A.reserved(w), w)
        ctx.decls.append((A.struct if rng.random() < 0.3 and shape != "payload" else A.packet)(ctx.uid("P"), b.fields))


def p_payload(ctx):
    rng = ctx.rng
    for _ in range(rng.randint(4, 6)):
        b = Body(ctx)
        b.maybe_noise(0.5)
        body = rng.random() < 0.3
        sized = add_payload(ctx, b, body=body)
        if rng.random() < 0.5:
            trailing_static(ctx, b)
        ctx.decls.append(A.packet(ctx.uid("P"), b.fields))


def p_optional(ctx):
    rng = ctx.rng
    # optional scalars and enums at every whole-octet width, in a child under a sized payload and
    # as element of a size-delimited array (their length feeds the enclosing size fields)
    w1, w2 = rng.sample([24, 40, 48, 56], 2)
    eid, _ = gen_enum(ctx, width=w1)
    b = Body(ctx)
    f1, f2 = b.flag(), b.flag()
    b.align()
    b.fields.append(A.typedef(ctx.fid(), eid, cond=A.constraint(f1, value=rng.choice([0, 1]))))
    b.fields.append(A.scalar(ctx.fid(), w2, cond=A.constraint(f2, value=1)))
    sid = ctx.uid("S")
    ctx.decls.append(A.struct(sid, b.fields))
    ctx.structs[sid] = "dynamic"
    b = Body(ctx)
    add_array(ctx, b, 0, shapes=["size"], elems=["dynamic"], allow_pad=False, allow_es=False)
    ctx.decls.append(A.packet(ctx.uid("P"), b.fields))
    b = Body(ctx)
    k = b.scalar(8)
    add_payload(ctx, b, sized=True, modifier=0)
    rid = ctx.uid("R")
    ctx.decls.append(A.packet(rid, b.fields))
    b = Body(ctx)
    f1 = b.flag()
    b.align()
    eid2, _ = gen_enum(ctx, width=w2)
    b.fields.append(A.typedef(ctx.fid(), eid2, cond=A.constraint(f1, value=1)))
    b.scalar(8)
    ctx.decls.append(A.packet(ctx.uid("C"), b.fields, parent_id=rid, constraints=[A.constraint(k, value=rng.randint(0, 255))]))
    ctx.features.add("inherit")
    # one flag guarding three optional fields, with both condition values (the flag's encoding is then
    # derived from several fields: the order in which the generators look at them must not matter)
    b = Body(ctx)
    fl = b.flag()
    b.align()
    order = [(0, 8), (1, 32), (1, 16)]
    rng.shuffle(order)
    for cv, w in order:
        b.fields.append(A.scalar(ctx.fid(), w, cond=A.constraint(fl, value=cv)))
    b.scalar(8)
    ctx.decls.append(A.packet(ctx.uid("P"), b.fields))
    # two flags in one declaration, each guarding two optional fields (whatever a generator keeps per
    # flag must not leak from the first flag to the second)
    b = Body(ctx)
    fa, fb = b.flag(), b.flag()
    b.align()
    for fl_, conds in ((fa, [1, 1]), (fb, rng.choice([[0, 1], [1, 1], [0, 0]]))):
        for cv in conds:
            b.fields.append(A.scalar(ctx.fid(), rng.choice([8, 16, 24]), cond=A.constraint(fl_, value=cv)))
    ctx.decls.append(A.packet(ctx.uid("P"), b.fields))
    ctx.features.add("shared_flag")
    for _ in range(rng.randint(3, 5)):
        b = Body(ctx)
        b.maybe_noise(0.4)
        add_optional(ctx, b, 0)
        if rng.random() < 0.4:
            b.align()
            add_array(ctx, b, 0, shapes=["count", "size", "static"], elems=["u8", "scalar", "static"])
        b.align()
        kind = A.packet if rng.random() < 0.7 else A.struct
        ctx.decls.append(kind(ctx.uid("P"), b.fields))


def constrainable(ctx, fields):
    """scalar / enum typedef fields (unconditional, not flags) -> list of fields"""
    flags = set()
    for fl in fields:
        if fl.get("cond"):
            flags.add(fl["cond"]["id"])
    out = []
    for fl in fields:
        if fl.get("cond") or A.field_id(fl) in flags:
            continue
        if fl["kind"] == "scalar_field":
            out.append(fl)
        elif fl["kind"] == "typedef_field":
            d = next((x for x in ctx.decls if x.get("id") == fl["type_id"]), None)
            if d and d["kind"] == "enum_declaration" and named_tags(d):
                out.append(fl)
    return out


def make_constraint(ctx, fl, avoid=()):
    rng = ctx.rng
    if fl["kind"] == "scalar_field":
        m = (1 << fl["width"]) - 1
        for _ in range(20):
            v = rng.choice([0, 1, m, max(0, m - 1), rng.randint(0, m)])
            if v not in avoid:
                return A.constraint(fl["id"], value=v), v
        return None, None
    d = next(x for x in ctx.decls if x.get("id") == fl["type_id"])
    nt = [t for t in named_tags(d) if t["id"] not in avoid]
    if not nt:
        return None, None
    t = rng.choice(nt)
    return A.constraint(fl["id"], tag_id=t["id"]), t["id"]


def p_inherit(ctx, struct_tree=False):
    rng = ctx.rng
    mk = A.struct if struct_tree else A.packet
    for ri in range(rng.randint(2, 3)):
        # root with discriminators
        b = Body(ctx)
        nd = rng.randint(1, 3)
        for _ in range(nd):
            if rng.random() < 0.6:
                b.scalar(rng.choice([1, 2, 4, 7, 8, 8, 16, 24, 32, 64]))
            else:
                eid, w = some_enum(ctx, maxw=32)
                b.ensure_room(w)
                b.add_bits(A.typedef(ctx.fid(), eid), w)
        if rng.random() < 0.3:
            # optional fields in a parent: the flag must survive specialization and conversions
            add_optional(ctx, b, 1, n=rng.randint(1, 2))
        # the first root always has an unsized payload followed by static fields (offset from the
        # end), the second a size field; the rest is random
        if ri == 0:
            sized = add_payload(ctx, b, body=False, sized=False)
            trailing_static(ctx, b, rng.randint(1, 2))
        elif ri == 1:
            sized = add_payload(ctx, b, body=rng.random() < 0.25, sized=True)
            if rng.random() < 0.4:
                trailing_static(ctx, b, 1)
        else:
            sized = add_payload(ctx, b, body=rng.random() < 0.25)
            if rng.random() < 0.4:
                trailing_static(ctx, b, 1)
        b.align()
        rid = ctx.uid("R")
        ctx.decls.append(mk(rid, b.fields))
        grow(ctx, rid, b.fields, {}, 1, rng.randint(1, 4), mk)
    if struct_tree:
        ctx.features.add("struct_inherit")
    ctx.features.add("inherit")


def grow(ctx, pid, scope_fields, used_cons, depth, maxdepth, mk):
    """Add children under pid. scope_fields: all fields visible (ancestors); used_cons: ids
    already constrained on the path."""
    rng = ctx.rng
    cands = [fl for fl in constrainable(ctx, scope_fields) if fl["id"] not in used_cons]
    nchildren = rng.randint(1, 3)
    mode = rng.random()
    taken = {}  # field id -> set of values used by siblings
    for ci in range(nchildren):
        cons = []
        ids = set()
        if cands and (mode < 0.85 or ci > 0):
            # siblings constrain the same first field with different values (unambiguous)
            fl0 = cands[0]
            c, v = make_constraint(ctx, fl0, avoid=taken.get(fl0["id"], set()))
            if c is None:
                break
            taken.setdefault(fl0["id"], set()).add(v)
            cons.append(c)
            ids.add(fl0["id"])
            if len(cands) > 1 and rng.random() < 0.3:
                fl1 = rng.choice(cands[1:])
                c, v = make_constraint(ctx, fl1)
                if c is not None:
                    cons.append(c)
                    ids.add(fl1["id"])
        elif ci > 0:
            break  # an unconstrained alias must be the only child to stay unambiguous
        b = Body(ctx)
        k = rng.random()
        has_payload = False
        if k < 0.15:
            pass  # empty child (alias / pure constraint)
        else:
            b.maybe_noise(0.7)
            if rng.random() < 0.3:
                add_array(ctx, b, 1, shapes=["count", "size", "static"], elems=["u8", "scalar", "enum", "static"])
            if rng.random() < 0.2 and ctx.profile != "inherit_java":
                add_optional(ctx, b, 1, n=1)
        if depth < maxdepth and rng.random() < 0.6:
            add_payload(ctx, b, body=rng.random() < 0.2)
            has_payload = True
            if rng.random() < 0.3:
                trailing_static(ctx, b, 1)
        elif rng.random() < 0.25 and not has_payload:
            # greedy tail
            b.align()
            b.fields.append(A.array(ctx.fid(), width=rng.choice([8, 16])))
        b.align()
        cid = ctx.uid("C")
        ctx.decls.append(mk(cid, b.fields, parent_id=pid, constraints=cons))
        if has_payload:
            uc = dict(used_cons)
            for i in ids:
                uc[i] = True
            grow(ctx, cid, scope_fields + b.fields, uc, depth + 1, maxdepth, mk)
        if not cons:
            break


def p_size_children(ctx):
    """children distinguished only by constant size (and by constraint + size)"""
    rng = ctx.rng
    b = Body(ctx)
    d = b.scalar(8)
    add_payload(ctx, b, sized=rng.random() < 0.5, modifier=0)
    rid = ctx.uid("R")
    ctx.decls.append(A.packet(rid, b.fields))
    if ctx.index % 2 == 1:
        # the size-discriminated group hangs below an intermediate packet: its payload length, not
        # the root's, decides (ancestors contribute fields of their own)
        b2 = Body(ctx)
        b2.random_bits(rng.randint(0, 1))
        b2.align()
        d2 = b2.scalar(8)
        add_payload(ctx, b2, sized=rng.random() < 0.4, modifier=0)
        if rng.random() < 0.3:
            trailing_static(ctx, b2, 1)
        mid = ctx.uid("R")
        ctx.decls.append(A.packet(mid, b2.fields, parent_id=rid, constraints=[A.constraint(d, value=rng.choice([7, 77, 255]))]))
        rid, d = mid, d2
    sizes = rng.sample([1, 2, 3, 4, 6, 8], 3)
    same = rng.random() < 0.5
    for j, n in enumerate(sizes):
        cons = [A.constraint(d, value=1 if same else j // 2)]
        flds = []
        left = n
        while left:
            w = rng.choice([x for x in (1, 2, 3, 4) if x <= left])
            flds.append(A.scalar(ctx.fid(), 8 * w))
            left -= w
        ctx.decls.append(A.packet(ctx.uid("C"), flds, parent_id=rid, constraints=cons))
    # siblings outside the size-discriminated group: a distinct constraint with a body of unknown
    # size, and one with a payload of its own and a grandchild
    k = rng.random()
    if k < 0.7:
        ctx.decls.append(A.packet(ctx.uid("C"), [A.array(ctx.fid(), width=rng.choice([8, 16]))], parent_id=rid,
                                  constraints=[A.constraint(d, value=200)]))
    if k > 0.4:
        mid = ctx.uid("C")
        ctx.decls.append(A.packet(mid, [A.scalar(ctx.fid(), 8), A.payload()], parent_id=rid,
                                  constraints=[A.constraint(d, value=201)]))
        ctx.decls.append(A.packet(ctx.uid("C"), [A.scalar(ctx.fid(), 16)], parent_id=mid))
    ctx.features.add("size_children")
    ctx.features.add("inherit")


def p_plain_chain(ctx):
    """a depth-2/3 chain in which every level declares fields of its own, with unsized payloads and
    nothing after them: the ancestors' fields must come root first in every builder, and no recorded
    builder defect of any backend applies to it"""
    rng = ctx.rng

    def flds(n):
        return [A.scalar(ctx.fid(), rng.choice([8, 16, 24, 32])) for _ in range(n)]
    # two discriminators whose declaration order is not their alphabetical order; one child fixes them to
    # (v1, v2), its sibling to (v2, v1): whoever pairs constraints with fields by position or by name gets
    # the other child
    k0 = ctx.uid("zk")
    ka = ctx.uid("ak")
    base = ctx.uid("R")
    ctx.decls.append(A.packet(base, [A.scalar(k0, 8), A.scalar(ka, 8)] + flds(rng.randint(1, 2)) + [A.payload()]))
    v1, v2 = rng.sample(range(256), 2)
    k1 = ctx.fid()
    mid = ctx.uid("C")
    ctx.decls.append(A.packet(mid, [A.scalar(k1, 8)] + flds(rng.randint(1, 2)) + [A.payload()], parent_id=base,
                              constraints=[A.constraint(k0, value=v1), A.constraint(ka, value=v2)]))
    ctx.decls.append(A.packet(ctx.uid("C"), flds(1), parent_id=base,
                              constraints=[A.constraint(ka, value=v1), A.constraint(k0, value=v2)]))
    k2 = ctx.fid()
    v = rng.sample(range(256), 2)
    ctx.decls.append(A.packet(ctx.uid("C"), flds(rng.randint(1, 3)), parent_id=mid, constraints=[A.constraint(k1, value=v[0])]))
    low = ctx.uid("C")
    ctx.decls.append(A.packet(low, [A.scalar(k2, 8)] + flds(1) + [A.payload()], parent_id=mid,
                              constraints=[A.constraint(k1, value=v[1])]))
    ctx.decls.append(A.packet(ctx.uid("C"), flds(2), parent_id=low, constraints=[A.constraint(k2, value=rng.randint(0, 255))]))
    ctx.features.add("inherit")


def p_alias_chain(ctx):
    """payload-only intermediates ("aliases") that carry a constraint of their own, with leaves below
    two different aliases constraining the same field to the same value: only the alias's constraint
    tells them apart, on valid encodings already"""
    rng = ctx.rng
    g, op = ctx.fid(), ctx.fid()
    wg = rng.choice([4, 8, 16])
    b = Body(ctx)
    b.add_bits(A.scalar(g, wg), wg)
    b.align()
    b.add_bits(A.scalar(op, 8), 8)
    add_payload(ctx, b, sized=rng.random() < 0.5, modifier=0)
    if rng.random() < 0.3:
        trailing_static(ctx, b, 1)
    rid = ctx.uid("R")
    ctx.decls.append(A.packet(rid, b.fields))
    gv = rng.sample(range(0, 1 << wg), 3)
    ops = rng.sample(range(0, 256), 2)
    for ai in range(2):
        alias = ctx.uid("C")
        ctx.decls.append(A.packet(alias, [A.payload()], parent_id=rid, constraints=[A.constraint(g, value=gv[ai])]))
        for oi, ov in enumerate(ops):
            flds = [A.scalar(ctx.fid(), rng.choice([8, 16, 24, 32]))]
            if rng.random() < 0.4:
                flds.append(A.array(ctx.fid(), width=8))
            ctx.decls.append(A.packet(ctx.uid("C"), flds, parent_id=alias, constraints=[A.constraint(op, value=ov)]))
    # a plain constrained child next to the aliases
    ctx.decls.append(A.packet(ctx.uid("C"), [A.scalar(ctx.fid(), 16)], parent_id=rid, constraints=[A.constraint(g, value=gv[2])]))
    ctx.features.add("inherit")


def p_enum(ctx):
    rng = ctx.rng
    shapes = []
    for o in (False, True):
        for r in (False, True):
            for c in (False, True):
                shapes.append({"open": o, "ranges": r, "complete": c})
    rng.shuffle(shapes)
    for sh in shapes[:6]:
        w = rng.choice([1, 2, 3, 4, 5, 6]) if sh["complete"] else rng.choice([3, 7, 8, 8, 9, 12, 16, 16, 24, 32, 33, 63, 64])
        eid, w = gen_enum(ctx, width=w, shape=sh)
        # a packet using it as bit-field, one as array element / optional when byte sized
        b = Body(ctx)
        b.ensure_room(w)
        b.add_bits(A.typedef(ctx.fid(), eid), w)
        b.maybe_noise(0.5)
        b.align()
        if w % 8 == 0:
            k = rng.random()
            if k < 0.5:
                b.header("count", "arr%s" % eid, 4)
                b.align()
                b.fields.append(A.array("arr%s" % eid, type_id=eid))
                ctx.features.add("enum_array")
            else:
                fl = b.flag()
                b.align()
                b.fields.append(A.typedef(ctx.fid(), eid, cond=A.constraint(fl, value=1)))
                ctx.features.add("optional")
        ctx.decls.append(A.packet(ctx.uid("P"), b.fields))


def p_groups(ctx):
    rng = ctx.rng
    groups = []
    for gi in range(rng.randint(2, 4)):
        b = Body(ctx)
        b.random_bits(rng.randint(1, 3))
        # nest previously made groups (depth <= 3 by construction order)
        if groups and rng.random() < 0.6:
            gid, gf, depth = rng.choice(groups)
            if depth < 3:
                b.align()
                cons = group_constraints(ctx, gf)
                b.fields.append(A.group_f(gid, cons))
                nested_depth = depth + 1
            else:
                nested_depth = 1
        else:
            nested_depth = 1
        b.align()
        gid = ctx.uid("G")
        ctx.decls.append(A.group(gid, b.fields))
        # constraints of a group use may only name fields declared directly in that group
        # (the analyzer resolves them in the group's own field list)
        groups.append((gid, [fl for fl in b.fields if fl["kind"] != "group_field"], nested_depth))
    for _ in range(rng.randint(3, 5)):
        b = Body(ctx)
        b.maybe_noise(0.5)
        b.align()
        gid, gf, _ = rng.choice(groups)
        b.fields.append(A.group_f(gid, group_constraints(ctx, gf)))
        if rng.random() < 0.5:
            b.random_bits(1)
        b.align()
        kind = A.packet if rng.random() < 0.7 else A.struct
        ctx.decls.append(kind(ctx.uid("P"), b.fields))
    # a "marker" group used several times in one declaration: every field of it is constrained at each
    # use (so the uses leave no named field behind and do not clash), with different values per use; and
    # two different groups that each constrain a field of the same name
    mf = [("mk_a", rng.choice([4, 8])), ("mk_b", None)]
    wa = mf[0][1]
    eid, ew = some_enum(ctx, maxw=16)
    while not named_tags(next(d for d in ctx.decls if d.get("id") == eid)):
        eid, ew = gen_enum(ctx, width=8, shape={"open": False, "ranges": False, "complete": False})
    nt = named_tags(next(d for d in ctx.decls if d.get("id") == eid))
    pad = (8 - (wa + ew) % 8) % 8
    mfields = [A.scalar("mk_a", wa), A.typedef("mk_b", eid)] + ([A.reserved(pad)] if pad else [])
    mg = ctx.uid("G")
    ctx.decls.append(A.group(mg, mfields))
    other = ctx.uid("G")
    ctx.decls.append(A.group(other, [A.scalar("mk_a", 8), A.scalar(ctx.fid(), 8)]))
    for _ in range(2):
        b = Body(ctx)
        b.maybe_noise(0.4)
        b.align()
        for u in range(rng.randint(2, 3)):
            cons = [A.constraint("mk_a", value=rng.randint(0, (1 << wa) - 1)),
                    A.constraint("mk_b", tag_id=rng.choice(nt)["id"])]
            b.fields.append(A.group_f(mg, cons))
            if rng.random() < 0.5:
                b.random_bits(1)
                b.align()
        if rng.random() < 0.5:
            b.fields.append(A.group_f(other, [A.constraint("mk_a", value=rng.randint(0, 255))]))
        ctx.decls.append(A.packet(ctx.uid("P"), b.fields))
    # nested uses that constrain the *same* identifier at two levels: the inner use fixes the inner group's
    # field (which then has no name), the enclosing group declares a field of that name itself, and its
    # user constrains that one to another value - the innermost constraint belongs to the innermost field
    tname_ = "mk_t"
    wt = rng.choice([8, 16])
    inner = ctx.uid("G")
    ctx.decls.append(A.group(inner, [A.scalar(tname_, wt), A.scalar(ctx.fid(), 8)]))
    outer = ctx.uid("G")
    v_in, v_out = rng.sample(range(1, 1 << wt), 2)
    ctx.decls.append(A.group(outer, [A.group_f(inner, [A.constraint(tname_, value=v_in)]), A.scalar(tname_, wt),
                                     A.scalar(ctx.fid(), 8)]))
    ctx.decls.append(A.packet(ctx.uid("P"), [A.scalar(ctx.fid(), 8), A.group_f(outer, [A.constraint(tname_, value=v_out)])]))
    ctx.decls.append(A.packet(ctx.uid("P"), [A.group_f(outer, []), A.scalar(ctx.fid(), 16)]))
    ctx.features.add("groups")


def flatten_group_fields(ctx, fields):
    out = []
    for fl in fields:
        if fl["kind"] == "group_field":
            g = next(d for d in ctx.decls if d.get("id") == fl["group_id"])
            sub = flatten_group_fields(ctx, g["fields"])
            cids = {c["id"] for c in fl["constraints"]}
            out.extend(f2 for f2 in sub if A.field_id(f2) not in cids)
        else:
            out.append(fl)
    return out


def group_constraints(ctx, gfields):
    rng = ctx.rng
    cons = []
    for fl in constrainable(ctx, gfields):
        if rng.random() < 0.5:
            c, _ = make_constraint(ctx, fl)
            if c is not None:
                cons.append(c)
    return cons


def p_small(ctx):
    """<= 16 variable bits: exhaustive sweeps"""
    rng = ctx.rng
    for _ in range(rng.randint(4, 6)):
        b = Body(ctx)
        budget = 16
        while budget > 0 and len(b.fields) < 6:
            w = rng.choice([1, 2, 3, 4, 5, 8])
            w = min(w, budget)
            k = rng.random()
            if k < 0.6:
                b.scalar(w)
                budget -= w
            elif k < 0.75:
                eid, ew = gen_enum(ctx, width=w)
                b.ensure_room(ew)
                b.add_bits(A.typedef(ctx.fid(), eid), ew)
                budget -= ew
            elif k < 0.9:
                b.fixed()
            else:
                b.reserved()
            if rng.random() < 0.3:
                break
        b.align()
        ctx.decls.append(A.packet(ctx.uid("P"), b.fields))
    ctx.features.add("small")


def p_struct_users(ctx):
    """derived structs and structs with a payload used as *types*: typedef field, array element
    (count- and size-delimited, padded), optional field, inside a sized parent payload. Their size is
    the whole chain's (ancestor fields + own fields + payload), which the tests never ask for."""
    rng = ctx.rng
    k = ctx.fid()
    wk = rng.choice([8, 8, 16])
    root_fields = [A.scalar(k, wk)]
    if rng.random() < 0.5:
        root_fields.append(A.scalar(ctx.fid(), rng.choice([8, 16, 24])))
    sized_root = ctx.index % 2 == 0    # alternates, so that every run has both
    if sized_root:
        root_fields.append(A.size_f("_payload_", 8))
    root_fields.append(A.payload())
    if rng.random() < 0.3 and not sized_root:
        root_fields.append(A.scalar(ctx.fid(), 8))
    a = ctx.uid("Ka")
    ctx.decls.append(A.struct(a, root_fields))
    # static leaf, static grandchild through an intermediate with a payload of its own
    leaf = ctx.uid("Kb")
    ctx.decls.append(A.struct(leaf, [A.scalar(ctx.fid(), rng.choice([8, 16, 32]))], parent_id=a,
                              constraints=[A.constraint(k, value=1)]))
    midc = ctx.uid("Kc")
    ctx.decls.append(A.struct(midc, [A.scalar(ctx.fid(), 8), A.payload()], parent_id=a,
                              constraints=[A.constraint(k, value=2)]))
    gleaf = ctx.uid("Kd")
    ctx.decls.append(A.struct(gleaf, [A.scalar(ctx.fid(), rng.choice([8, 24]))], parent_id=midc))
    ctx.structs[leaf] = "static"
    ctx.structs[gleaf] = "static"
    users = []
    for t in (leaf, gleaf):
        users.append([A.scalar(ctx.fid(), 8), A.typedef(ctx.fid(), t), A.scalar(ctx.fid(), 8)])
        aid = ctx.fid()
        users.append([A.size_f(aid, 8), A.array(aid, type_id=t)])
        aid = ctx.fid()
        users.append([A.count_f(aid, 4), A.reserved(4), A.array(aid, type_id=t), A.padding(rng.choice([24, 40]))])
        users.append([A.array(ctx.fid(), type_id=t, size=rng.choice([1, 2, 3]))])
        fl = ctx.fid()
        users.append([A.scalar(fl, 1), A.reserved(7), A.typedef(ctx.fid(), t, cond=A.constraint(fl, value=1)),
                      A.scalar(ctx.fid(), 16)])
    if not sized_root:
        # the parent struct itself as a (greedy) last field
        users.append([A.scalar(ctx.fid(), 8), A.typedef(ctx.fid(), a)])
    rng.shuffle(users)
    users = users[:rng.randint(5, 8)]
    if sized_root:
        # the parent struct - constant header, payload delimited by its own size field - as array element
        # (the TLV idiom): its size class is that of header + payload, not of the header
        aid = ctx.fid()
        users.append([A.count_f(aid, 8), A.array(aid, type_id=a)])
        aid = ctx.fid()
        users.append([A.size_f(aid, 16), A.array(aid, type_id=a), A.scalar(ctx.fid(), 8)])
        users.append([A.scalar(ctx.fid(), 8), A.typedef(ctx.fid(), a), A.scalar(ctx.fid(), 8)])
    for flds in users:
        ctx.decls.append(A.packet(ctx.uid("P"), flds))
    # a struct-typed field inside a child whose parent's payload is sized: the field's length feeds the
    # enclosing size field
    pk = ctx.fid()
    rp = ctx.uid("R")
    ctx.decls.append(A.packet(rp, [A.scalar(pk, 8), A.size_f("_payload_", 8), A.payload()]))
    ctx.decls.append(A.packet(ctx.uid("C"), [A.typedef(ctx.fid(), rng.choice([leaf, gleaf])), A.scalar(ctx.fid(), 8)],
                              parent_id=rp, constraints=[A.constraint(pk, value=5)]))
    ctx.features.add("struct_inherit")
    ctx.features.add("inherit")
    ctx.features.add("padding")
    ctx.features.add("optional")


def p_structs(ctx):
    rng = ctx.rng
    for _ in range(rng.randint(3, 5)):
        b = Body(ctx)
        for _ in range(rng.randint(1, 3)):
            fill_item(ctx, b, 0)
        b.align()
        if rng.random() < 0.4:
            s = some_struct(ctx, "greedy", 0)
            b.fields.append(A.typedef(ctx.fid(), s))
        ctx.decls.append(A.packet(ctx.uid("P"), b.fields))
    if rng.random() < 0.7:
        p_inherit(ctx, struct_tree=True)
    p_struct_users(ctx)


def p_hostile(ctx):
    """wide size / count / element-size fields for adversarial inputs (C01, C14)"""
    rng = ctx.rng
    for _ in range(rng.randint(4, 6)):
        b = Body(ctx)
        b.maybe_noise(0.3)
        k = rng.random()
        if k < 0.6:
            add_array(ctx, b, 0, shapes=["count", "size"], elems=["u8", "scalar", "enum", "static", "dynamic", "greedy"],
                      hostile=True)
        else:
            add_payload(ctx, b, sized=True, hostile=True)
            if rng.random() < 0.4:
                trailing_static(ctx, b, 1)
        b.align()
        ctx.decls.append(A.packet(ctx.uid("P"), b.fields))
    ctx.features.add("hostile")


def p_mix(ctx):
    rng = ctx.rng
    for _ in range(rng.randint(3, 5)):
        b = Body(ctx)
        for _ in range(rng.randint(1, 4)):
            k = rng.random()
            if k < 0.3:
                fill_item(ctx, b, 0)
            elif k < 0.55:
                add_array(ctx, b, 0, shapes=["static", "count", "size"],
                          elems=["u8", "scalar", "enum", "static", "dynamic", "custom"])
            elif k < 0.75:
                add_optional(ctx, b, 0, n=rng.randint(1, 2))
            else:
                b.random_bits(2)
        b.align()
        if rng.random() < 0.3:
            b.fields.append(A.array(ctx.fid(), width=rng.choice([8, 16, 24])))
        ctx.decls.append(A.packet(ctx.uid("P"), b.fields))
    if rng.random() < 0.5:
        p_inherit(ctx)


def p_matrix(ctx):
    """Systematic rather than random: one declaration per (element kind x array shape) cell, in six
    parts chosen by the description index so that every backend sees the cells it supports:
    0 scalar-like elements, 1 struct elements, 2 padded arrays, 3 element-size fields,
    4 custom-field elements, 5 array size modifiers. Guarantees that even the quick tier drives every
    array arm of every generator."""
    rng = ctx.rng
    part = ctx.index % MATRIX_PARTS
    # the parts every backend supports are written without the constructs the Java / C++ generators are
    # known to choke on (odd fixed fields, enum literals >= 2^31): there the matrix is about arrays
    ctx.tame = part in (0, 1, 5)
    scalar_w = [16, 24, 32, 40, 48, 56, 64]
    rng.shuffle(scalar_w)
    enum_w = [8, 16, 24, 64, 32, 40]

    def one(el, sh, pad=False, es=None, modifier=None, width=None):
        b = Body(ctx)
        b.maybe_noise(0.3)
        add_array(ctx, b, 0, shapes=[sh], elems=[el], allow_pad=pad, pad_force=pad, es_force=es,
                  modifier=modifier, width=width)
        if sh != "unknown" and rng.random() < 0.3:
            trailing_static(ctx, b, 1)
        b.align()
        kind = A.struct if rng.random() < 0.25 else A.packet
        ctx.decls.append(kind(ctx.uid("P"), b.fields))

    shapes = ["static", "count", "size", "unknown"]
    if part == 0:
        for n, sh in enumerate(shapes):
            one("u8", sh)
            one("scalar", sh, width=scalar_w[n])
            one("enum", sh, width=enum_w[n])
    elif part == 1:
        for el in ("static", "dynamic"):
            for sh in shapes:
                one(el, sh, es=False)
    elif part == 2:
        for n, el in enumerate(("u8", "scalar", "enum", "static", "dynamic")):
            for k, sh in enumerate(shapes[:3]):
                one(el, sh, pad=True, es=False, width={"scalar": scalar_w[k], "enum": enum_w[k + 1]}.get(el))
        # a dynamic struct holding a padded static-count array, as element of a size-delimited array:
        # its octet size (padding included) feeds the enclosing size field
        sid = ctx.uid("S")
        ex = ctx.fid()
        ctx.decls.append(A.struct(sid, [A.scalar(ctx.fid(), 8), A.array(ctx.fid(), width=16, size=2), A.padding(rng.choice([6, 8])),
                                        A.count_f(ex, 8), A.array(ex, width=8)]))
        ctx.structs[sid] = "dynamic"
        arr = ctx.fid()
        ctx.decls.append(A.packet(ctx.uid("P"), [A.size_f(arr, 8), A.array(arr, type_id=sid), A.scalar(ctx.fid(), 8)]))
    elif part == 3:
        for el in ("dynamic", "greedy"):
            for sh in shapes:
                one(el, sh, es=True)
        for sh in ("count", "size"):
            one("dynamic", sh, pad=True, es=True)
    elif part == 4:
        for sh in shapes:
            one("custom", sh)
        one("custom", "count", pad=True)
    else:
        for n, el in enumerate(("u8", "scalar", "enum", "static", "dynamic")):
            one(el, "size", es=False, modifier=rng.choice([1, 2, 3, 7]), width={"scalar": scalar_w[n], "enum": enum_w[n % 4]}.get(el))
        one("u8", "size", pad=True, modifier=2)


MATRIX_PARTS = 6


PROFILE_FN = {
    "bitfield": p_bitfield, "array": p_array, "payload": lambda c: (p_payload(c), p_reserved_tail(c)), "optional": p_optional,
    "inherit": lambda c: (p_inherit(c), p_size_children(c), p_alias_chain(c), p_plain_chain(c)),
    "enum": p_enum, "groups": p_groups, "small": p_small, "mix": p_mix, "structs": p_structs,
    "hostile": p_hostile, "matrix": p_matrix,
}


def generate(seed, profile, endianness=A.LE, shuffle=True):
    """-> {'file', 'features', 'profile', 'seed'}"""
    rng = random.Random("%s/%s" % (seed, profile))
    try:
        index = int(str(seed).rsplit(".", 1)[-1])
    except ValueError:
        index = 0
    ctx = Ctx(rng, profile, index)
    PROFILE_FN[profile](ctx)
    decls = ctx.decls
    if shuffle and rng.random() < 0.5:
        # forward references are legal: present declarations in random order
        decls = list(decls)
        rng.shuffle(decls)
    f = A.file(endianness, decls)
    return {"file": f, "features": sorted(ctx.features | scan_features(f)), "profile": profile,
            "seed": seed}


def scan_features(f):
    """features recomputed from the file itself (also used for corpus files)."""
    feats = set()
    dm = A.decl_map(f)
    for d in f["declarations"]:
        k = d["kind"]
        if k == "checksum_declaration":
            feats.add("checksum")
        if k == "custom_field_declaration":
            feats.add("custom")
            if d.get("width") is None:
                feats.add("custom_unsized")
        if k == "group_declaration":
            feats.add("groups")
        if k == "struct_declaration" and d.get("parent_id"):
            feats.add("struct_inherit")
        if d.get("parent_id"):
            feats.add("inherit")
            p = dm.get(d["parent_id"])
            if p is not None and p.get("parent_id") and d.get("constraints"):
                pf = {A.field_id(x) for x in p.get("fields", ())}
                if any(c["id"] not in pf for c in d["constraints"]):
                    feats.add("constraint_on_grandparent")
        for fl in d.get("fields", ()):
            fk = fl["kind"]
            if fl.get("cond"):
                feats.add("optional")
            if fk == "padding_field":
                feats.add("padding")
            if fk == "elementsize_field":
                feats.add("elementsize")
            if fk == "checksum_field":
                feats.add("checksum")
            if fk == "array_field" and fl.get("size_modifier"):
                feats.add("array_size_modifier")
            if fk == "payload_field" and fl.get("size_modifier"):
                feats.add("payload_modifier")
            if fk == "array_field" and fl.get("type_id") and dm.get(fl["type_id"], {}).get("kind") == "enum_declaration":
                feats.add("enum_array")
        if k == "enum_declaration":
            for t in d["tags"]:
                tk = A.tag_kind(t)
                if tk == "range":
                    feats.add("enum_ranges")
                if tk == "other":
                    feats.add("enum_open")
            if d["width"] > 32:
                feats.add("enum_wide")
    return feats


UNSUPPORTED = {
    "rust": {"checksum", "custom_unsized", "array_size_modifier"},
    "python": {"elementsize", "checksum"},
    "cxx": {"custom", "custom_unsized", "checksum"},
    "java": {"optional", "padding", "elementsize", "custom", "custom_unsized", "checksum",
             "constraint_on_grandparent", "struct_inherit", "array_size_modifier"},
}


def supported_by(features):
    fs = set(features)
    return {b for b, bad in UNSUPPORTED.items() if not (fs & bad)}
