"""C08 rule catalogue: for each analyzer error code, edit operators that make a well-formed
description violate exactly that rule. Every generated case is (pdl text, expected) where
expected is an error code ("E14") or "OK" (boundary control that must be accepted).

Cases are small self-contained snippets written in every context the rule can occur in (root
packet, child packet, struct, child struct, group body; first / middle / last field), at random
widths, then embedded among the declarations of a generator description (shuffled order) so
that the rule has to be found in a realistic file."""
from __future__ import annotations

import random

CONTEXTS = ["root", "child", "struct", "child_struct", "group"]


class Case:
    __slots__ = ("decls", "expect", "label")

    def __init__(self, decls, expect, label):
        self.decls = decls      # list of declaration texts
        self.expect = expect
        self.label = label


def wrap(r, ctx, fields, pre_ok=True, post_ok=True, name="V1", extra=()):
    """Put `fields` (list of field texts) into a declaration of kind ctx; -> list of decl texts.
    Filler fields are byte sized so alignment is preserved."""
    pre = []
    post = []
    if pre_ok and r.random() < 0.6:
        pre = r.sample(["za: 8", "zb: 16", "_reserved_: 8", "_fixed_ = 3 : 8"], r.randint(1, 2))
    if post_ok and r.random() < 0.6:
        post = r.sample(["zc: 8", "zd: 24", "_reserved_: 16"], r.randint(1, 2))
    body = ", ".join(pre + list(fields) + post)
    out = list(extra)
    if ctx == "root":
        out.append("packet %s { %s }" % (name, body))
    elif ctx == "child":
        out.append("packet %s_P { zk: 8, _payload_ }" % name)
        out.append("packet %s : %s_P (zk = %d) { %s }" % (name, name, r.randint(0, 255), body))
    elif ctx == "struct":
        out.append("struct %s { %s }" % (name, body))
    elif ctx == "child_struct":
        out.append("struct %s_P { zk: 8, _payload_ }" % name)
        out.append("struct %s : %s_P { %s }" % (name, name, body))
    elif ctx == "group":
        out.append("group %s { %s }" % (name, body))
        out.append("packet %s_U { %s }" % (name, name))
    return out


def pick_ctx(r, allowed=CONTEXTS):
    return r.choice(allowed)


def W(r, lo=1, hi=63):
    return r.choice([lo, hi, 8, 7, 9, 16, 31, 32, 33, r.randint(lo, hi)]) if hi >= lo else lo


def byte_w(r):
    return r.choice([8, 16, 24, 32, 40, 64])


# ---------------------------------------------------------------------------- operators
def gen_cases(r):
    """yield Case objects (one pass over every operator with fresh random parameters)"""
    C = []

    def add(decls, expect, label):
        C.append(Case(decls, expect, label))

    kinds = {
        "enum": "enum %s : 8 { A_%s = 1 }",
        "packet": "packet %s { a: 8 }",
        "struct": "struct %s { a: 8 }",
        "group": "group %s { a: 8 }",
        "custom": "custom_field %s : 8 \"c\"",
        "checksum": "checksum %s : 8 \"c\"",
    }

    def decl(kind, name):
        t = kinds[kind]
        return t % ((name, name) if kind == "enum" else (name,))

    # E1 duplicate declaration identifier — all kind pairs
    k1, k2 = r.choice(list(kinds)), r.choice(list(kinds))
    add([decl(k1, "V1"), decl(k2, "V1")], "E1", "dup-decl:%s/%s" % (k1, k2))

    # E2 recursion
    n = r.randint(1, 3)
    kw = r.choice(["packet", "struct"])
    ds = []
    for i in range(n):
        ds.append("%s V%d : V%d { }" % (kw, i, (i + 1) % n))
    add(ds, "E2", "parent-cycle:%d:%s" % (n, kw))
    add(["struct V1 { a: 8, x: V1 }"], "E2", "struct-contains-itself:typedef")
    add(["struct V1 { a: 8, x: V1[%d] }" % r.randint(1, 4)], "E2", "struct-contains-itself:static-array")
    add(["struct V1 { a: 8, x: V2 }", "struct V2 { y: V1 }"], "E2", "struct-mutual:typedef")
    add(["group V1 { a: 8, V1 }", "packet V2 { V1 }"], "E2", "group-uses-itself")
    add(["struct V1 { a: 8, x: V1[] }"], "OK", "control:struct-dynamic-array-of-itself")

    # E3 / E4 group identifiers
    ctx = pick_ctx(r)
    add(wrap(r, ctx, ["V_missing"]), "E3", "undeclared-group|" + ctx)
    for k in ("enum", "struct", "packet", "custom"):
        ctx = pick_ctx(r)
        add(wrap(r, ctx, ["V9"], extra=[decl(k, "V9")]), "E4", "group-names-%s|%s" % (k, ctx))

    # E5 / E6 type identifiers
    ctx = pick_ctx(r)
    add(wrap(r, ctx, ["x: V_missing"]), "E5", "undeclared-typedef|" + ctx)
    ctx = pick_ctx(r)
    add(wrap(r, ctx, ["x: V_missing[%s]" % r.choice(["", "3"])]), "E5", "undeclared-array-element|" + ctx)
    ctx = pick_ctx(r)
    add(wrap(r, ctx, ["x: V9"], extra=[decl("packet", "V9")]), "E6", "typedef-names-packet|" + ctx)
    ctx = pick_ctx(r)
    add(wrap(r, ctx, ["x: V9[%s]" % r.choice(["", "2"])], extra=[decl("packet", "V9")]), "E6",
        "array-of-packet|" + ctx)

    # E7 / E8 parents
    kw = r.choice(["packet", "struct"])
    add(["%s V1 : V_missing { }" % kw], "E7", "undeclared-parent:" + kw)
    for child, parent in (("packet", "struct"), ("struct", "packet"), ("packet", "group"), ("struct", "enum"),
                          ("packet", "enum"), ("struct", "group"), ("packet", "custom")):
        add([decl(parent, "V9"), "%s V1 : V9 { }" % child], "E8", "parent-kind:%s<-%s" % (child, parent))

    # E11 duplicate field identifier
    pairs = [("x: 8", "x: 16"), ("x: 8", "x: V9"), ("x: 8[]", "x: 8"), ("x: V9", "x: 8[2]"), ("x: 8", "x: 8")]
    a, b = r.choice(pairs)
    ctx = pick_ctx(r)
    mid = ["zm: 8"] if r.random() < 0.5 else []
    add(wrap(r, ctx, [a] + mid + [b], extra=[decl("enum", "V9")]), "E11", "dup-field|" + ctx)

    ctx = pick_ctx(r, ["root", "child", "struct", "child_struct"])
    add(wrap(r, ctx, r.sample(["x: 8", "V5"], 2), extra=["group V5 { x: 8, gy: 8 }"]), "E11", "dup-field-via-group|" + ctx)
    add(wrap(r, ctx, ["V5", "zs: 8", "V5"], extra=["group V5 { x: 8 }"]), "E11", "dup-field-group-used-twice|" + ctx)
    kw = r.choice(["packet", "struct"])
    add(["%s V0 { x: 8, _payload_ }" % kw, "%s V1 : V0 { x: %d }" % (kw, byte_w(r))], "E11", "dup-field-via-parent:" + kw)
    add(["%s V0 { x: 8, _payload_ }" % kw, "%s V1 : V0 { y: 8, _payload_ }" % kw, "%s V2 : V1 { x: 8 }" % kw], "E11",
        "dup-field-via-grandparent:" + kw)
    add(["%s V0 { x: 8, _payload_ }" % kw, "%s V1 : V0 { y: 8 }" % kw, "%s V2 : V0 (x = 1) { y: 16 }" % kw], "OK",
        "control:siblings-share-field-id:" + kw)

    # E12 / E13 tags
    w = W(r, 2, 63)
    m = (1 << w) - 1
    add(["enum V1 : %d { A = 0, A = 1 }" % w], "E12", "dup-tag-id:top")
    add(["enum V1 : %d { R = 1..%d { A = 1, A = 2 } }" % (max(w, 3), min(m, 6))], "E12", "dup-tag-id:nested")
    add(["enum V1 : %d { A = 0, A = 2..3 }" % max(w, 3)], "E12", "dup-tag-id:range-id")
    add(["enum V1 : %d { A = 0, A = .. }" % w], "E12", "dup-tag-id:default-id")
    add(["enum V1 : %d { R = 1..3 { A = 1 }, A = 0 }" % max(w, 3)], "E12", "dup-tag-id:nested-vs-top")
    v = r.choice([0, 1, m])
    add(["enum V1 : %d { A = %d, B = %d }" % (w, v, v)], "E13", "dup-tag-value:top")
    add(["enum V1 : %d { R = 0..3 { A = 1, B = 1 } }" % max(w, 3)], "E13", "dup-tag-value:nested")

    # E14 tag value out of range
    w = r.randint(1, 63)
    add(["enum V1 : %d { A = %d }" % (w, 1 << w)], "E14", "tag-value-2^w:w%d" % w)
    add(["enum V1 : %d { A = %d }" % (w, (1 << w) - 1)], "OK", "control:tag-value-2^w-1:w%d" % w)
    add(["enum V1 : 8 { R = 2..5 { A = %d } }" % r.choice([1, 6, 0, 255])], "E14", "nested-tag-outside-range")
    add(["enum V1 : 8 { R = 2..5 { A = %d } }" % r.choice([2, 5, 3])], "OK", "control:nested-tag-at-range-bound")

    # constraints E15..E22 (packet inheritance and group uses)
    w = r.randint(1, 63)
    base = ["enum V8 : 8 { T1 = 1, T2 = 2, RG = 4..9 }", "struct V7 { s: 8 }", "custom_field V6 : 8 \"c\""]
    kw = r.choice(["packet", "struct"])

    def inh(parent_fields, cons, label, expect, kw=kw):
        # the constrained field may be declared any number of levels up: 0..2 intermediate
        # declarations (aliases, or levels constraining an unrelated field) sit between V0 and V1
        n_mid = r.choice([0, 0, 1, 2])
        decls = ["%s V0 { %s, zq: 8, _payload_ }" % (kw, parent_fields)]
        par = "V0"
        zq_used = False
        for i in range(n_mid):
            c = ""
            if not zq_used and r.random() < 0.4:
                c = " (zq = %d)" % r.randint(0, 255)
                zq_used = True
            decls.append("%s V0m%d : %s%s { _payload_ }" % (kw, i, par, c))
            par = "V0m%d" % i
        decls.append("%s V1 : %s (%s) { }" % (kw, par, cons))
        add(base + decls, expect, "%s:%s:depth%d" % (label, kw, n_mid + 1))

    def grp(group_fields, cons, label, expect):
        ctx = pick_ctx(r, ["root", "child", "struct", "child_struct"])
        add(wrap(r, ctx, ["V5 { %s }" % cons], extra=base + ["group V5 { %s }" % group_fields]), expect,
            label + ":group-use|" + ctx)
    for mk in (inh, grp):
        mk("a: 8", "zz = 1", "constraint-undeclared-id", "E15")
        mk("a: 8[2]", "a = 1", "constraint-on-array", "E16")
        mk("a: %d, zp: %d" % (w, (8 - w % 8) % 8 or 8), "a = T1", "constraint-tag-on-scalar", "E17")
        mk("a: %d, zp: %d" % (w, (8 - w % 8) % 8 or 8), "a = %d" % (1 << w), "constraint-value-2^w:w%d" % w, "E18")
        mk("a: %d, zp: %d" % (w, (8 - w % 8) % 8 or 8), "a = %d" % ((1 << w) - 1),
           "control:constraint-value-2^w-1:w%d" % w, "OK")
        mk("a: V8", "a = 1", "constraint-int-on-enum", "E19")
        mk("a: V8", "a = T9", "constraint-unknown-tag", "E20")
        mk("a: V8", "a = RG", "constraint-names-range-tag", "E42")
        mk("a: V8", "a = T2", "control:constraint-enum-tag", "OK")
        mk("a: V7", "a = 1", "constraint-on-struct-field", "E21")
        mk("a: V6", "a = 1", "constraint-on-custom-field", "E21")
        mk("a: 8, b: 8", "a = 1, a = 2", "constraint-same-id-twice", "E22")
    add(["packet V0 { a: 8, _payload_ }", "packet V1 : V0 (a = 1) { _payload_ }", "packet V2 : V1 (a = 1) { }"],
        "E22", "re-constraining-ancestor-field")
    # the same rule at every distance: a chain of 3..5 levels, the field constrained at level i and
    # again at level j > i, the levels in between constraining another field or nothing
    for kw2 in ("packet", "struct"):
        depth = r.randint(3, 5)
        i = r.randint(1, depth - 2)
        j = r.randint(i + 1, depth - 1)
        chain = ["%s V0 { a: 8, b: 8, e: V8, _payload_ }" % kw2]
        fld, val1, val2 = r.choice([("a", "1", "2"), ("a", "7", "7"), ("e", "T1", "T2"), ("e", "T2", "T2")])
        b_used = False
        for lv in range(1, depth):
            if lv == i:
                c = " (%s = %s)" % (fld, val1)
            elif lv == j:
                c = " (%s = %s)" % (fld, val2)
            elif not b_used and r.random() < 0.5:
                c = " (b = %d)" % r.randint(0, 255)
                b_used = True
            else:
                c = ""
            chain.append("%s V%d : V%d%s { %s }" % (kw2, lv, lv - 1, c, "_payload_" if lv < depth - 1 else ""))
        add(base + chain, "E22", "re-constraining-ancestor-field:%s:levels%d-%d-of-%d" % (kw2, i, j, depth))
        # control: the same chain with the second constraint moved to the other field
        ctrl = [x.replace("(%s = %s)" % (fld, val2), "(b = 3)") if k == j and "(%s = %s)" % (fld, val2) in x else x
                for k, x in enumerate(chain)]
        if not b_used and val1 != val2:
            add(base + ctrl, "OK", "control:distinct-fields-constrained-at-levels:%s" % kw2)
    add(["packet V0 { a: 8, b: 8, _payload_ }", "packet V1 : V0 (a = 1) { _payload_ }", "packet V2 : V1 (b = 1) { }"],
        "OK", "control:constraint-added-at-second-level")

    # E23..E31 size / count / elementsize fields
    w = r.choice([1, 3, 4, 8, 12, 16, 32])
    padw = (8 - (2 * w) % 8) % 8

    def fill(bits):
        return ["_reserved_: %d" % bits] if bits else []
    for kind, code_dup, code_undecl, code_inval in (("_size_", "E23", "E24", "E25"), ("_count_", "E26", "E27", "E28"),
                                                   ("_elementsize_", "E29", "E30", "E31")):
        ctx = pick_ctx(r)
        tgt = "x: V7[]" if kind == "_elementsize_" else r.choice(["x: 8[]", "x: 16[]", "x: V7[]"])
        add(wrap(r, ctx, ["%s(x): %d" % (kind, w), "%s(x): %d" % (kind, w)] + fill(padw) + [tgt], extra=base),
            code_dup, "duplicate%s|%s" % (kind, ctx))
        ctx = pick_ctx(r)
        add(wrap(r, ctx, ["%s(nope): %d" % (kind, w)] + fill((8 - w % 8) % 8) + ["x: 8[]"], extra=base),
            code_undecl, "undeclared-target%s|%s" % (kind, ctx))
        ctx = pick_ctx(r)
        elsewhere = r.choice(["packet V2_O { nope: 8[] }", "struct V2_O { nope: V7[] }", "group V2_O { nope: 8[] }"])
        add(wrap(r, ctx, ["%s(nope): %d" % (kind, w)] + fill((8 - w % 8) % 8) + ["x: 8[]"], extra=base + [elsewhere]),
            code_undecl, "target-declared-elsewhere%s|%s" % (kind, ctx))
        for bad in ("x: 8", "x: V7", "x: V8"):
            ctx = pick_ctx(r)
            flds = ["%s(x): %d" % (kind, w)] + fill((8 - w % 8) % 8) + [bad]
            if bad == "x: V8":
                flds = ["%s(x): 8" % kind, bad]
            add(wrap(r, ctx, flds, extra=base), code_inval, "invalid-target%s:%s|%s" % (kind, bad.split(": ")[1], ctx))
    ctx = pick_ctx(r, ["root", "child", "struct", "child_struct"])
    add(wrap(r, ctx, ["_size_(_payload_): 8", "_size_(_payload_): 8", "_payload_"], post_ok=False), "E23",
        "duplicate-payload-size|" + ctx)
    ctx = pick_ctx(r)
    add(wrap(r, ctx, ["_size_(x): 4", "_count_(x): 4", "x: 8[]"], extra=base), "E26", "size-then-count-same-array|" + ctx)
    ctx = pick_ctx(r)
    add(wrap(r, ctx, ["_count_(x): 4", "_size_(x): 4", "x: 8[]"], extra=base), "E23", "count-then-size-same-array|" + ctx)
    ctx = pick_ctx(r, ["root", "struct", "group"])
    add(wrap(r, ctx, ["_size_(_payload_): 8", "x: 8"]), "E24", "size-of-missing-payload|" + ctx)
    ctx = pick_ctx(r, ["root", "struct"])
    add(wrap(r, ctx, ["_size_(_body_): 8", "_payload_"], post_ok=False), "E24", "size-of-body-but-payload|" + ctx)

    # E32..E35 fixed fields
    w = r.randint(1, 63)
    ctx = pick_ctx(r)
    add(wrap(r, ctx, ["_fixed_ = %d : %d" % (1 << w, w)] + fill((8 - w % 8) % 8)), "E32", "fixed-2^w:w%d|%s" % (w, ctx))
    ctx = pick_ctx(r)
    add(wrap(r, ctx, ["_fixed_ = %d : %d" % ((1 << w) - 1, w)] + fill((8 - w % 8) % 8)), "OK",
        "control:fixed-2^w-1:w%d|%s" % (w, ctx))
    ctx = pick_ctx(r)
    add(wrap(r, ctx, ["_fixed_ = T1 : V_missing"]), "E33", "fixed-enum-missing-type|" + ctx)
    ctx = pick_ctx(r)
    add(wrap(r, ctx, ["_fixed_ = T9 : V8"], extra=base), "E34", "fixed-enum-missing-tag|" + ctx)
    for t in ("V7", "V6"):
        ctx = pick_ctx(r)
        add(wrap(r, ctx, ["_fixed_ = T1 : %s" % t], extra=base), "E35", "fixed-enum-non-enum:%s|%s" % (t, ctx))

    # E36 / E37 payload
    for a, b in (("_payload_", "_payload_"), ("_payload_", "_body_"), ("_body_", "_body_")):
        ctx = pick_ctx(r, ["root", "child", "struct", "child_struct"])
        add(wrap(r, ctx, [a, "zq: 8", b], post_ok=False), "E36", "two-payloads:%s+%s|%s" % (a, b, ctx))
    kw = r.choice(["packet", "struct"])
    add(["%s V0 { a: 8 }" % kw, "%s V1 : V0 { b: 8 }" % kw], "E37", "child-fields-without-parent-payload:" + kw)
    add(["%s V0 { a: 8 }" % kw, "%s V1 : V0 (a = 1) { }" % kw], "OK", "control:empty-child-without-payload:" + kw)
    add(["%s V0 { a: 8, _payload_ }" % kw, "%s V1 : V0 { _payload_ }" % kw, "%s V2 : V1 { }" % kw,
         "%s V3 : V0 { b: 8 }" % kw], "OK", "control:payload-chain:" + kw)
    add(["packet V0 { a: 8, _payload_ }", "packet V1 : V0 { c: 8 }", "packet V2 : V1 { b: 8 }"], "E37",
        "grandchild-fields-without-payload")

    # E38 / E39 arrays and padding
    n = r.randint(1, 9)
    for kind in ("_size_", "_count_"):
        ctx = pick_ctx(r)
        add(wrap(r, ctx, ["%s(x): 8" % kind, "x: %s[%d]" % (r.choice(["8", "16", "V7"]), n)], extra=base), "E38",
            "redundant%s-for-static-array|%s" % (kind, ctx))
    for before in (["a: 8"], ["a: V7"], ["_reserved_: 8"], [], ["x: 8[2]", "zz: 8"], ["_payload_"]):
        ctx = pick_ctx(r, ["root", "struct", "group"] if before != ["_payload_"] else ["root", "struct"])
        add(wrap(r, ctx, before + ["_padding_[%d]" % r.randint(1, 64)], pre_ok=bool(before), post_ok=(before != ["_payload_"]),
                 extra=base), "E39", "padding-after-%s|%s" % ((before[-1].split(":")[0] if before else "nothing"), ctx))
    ctx = pick_ctx(r)
    add(wrap(r, ctx, ["x: 8[2]", "_padding_[8]"], extra=base), "OK", "control:padding-after-array|" + ctx)

    # E40 / E41 / E43 / E44 enum ranges
    w = r.randint(3, 63)
    m = (1 << w) - 1
    a = r.randint(0, m - 1)
    add(["enum V1 : %d { R = %d..%d }" % (w, a, a)], "E40", "range-start-eq-end")
    add(["enum V1 : %d { R = %d..%d }" % (w, a + 1, a)], "E40", "range-start-gt-end")
    add(["enum V1 : %d { R = %d..%d }" % (w, max(0, m - 2), m + 1)], "E40", "range-end-2^w:w%d" % w)
    add(["enum V1 : %d { R = %d..%d }" % (w, max(0, m - 2), m)], "OK", "control:range-end-2^w-1:w%d" % w)
    s0 = r.randint(0, m - 4)
    add(["enum V1 : %d { R = %d..%d, S = %d..%d }" % (w, s0, s0 + 2, s0 + 2, s0 + 4)], "E41", "ranges-overlap-by-one")
    add(["enum V1 : %d { R = %d..%d, S = %d..%d }" % (w, s0, s0 + 4, s0 + 1, s0 + 2)], "E41", "range-nested-in-range")
    add(["enum V1 : %d { S = %d..%d, R = %d..%d }" % (w, s0 + 2, s0 + 4, s0, s0 + 2)], "E41", "ranges-overlap-reversed-order")
    add(["enum V1 : %d { R = %d..%d, S = %d..%d }" % (w, s0, s0 + 1, s0 + 2, s0 + 4)], "OK", "control:ranges-touching")
    add(["enum V1 : %d { R = %d..%d, A = %d }" % (w, s0, s0 + 3, r.choice([s0, s0 + 3, s0 + 1]))], "E43",
        "tag-value-inside-range")
    add(["enum V1 : %d { A = %d, R = %d..%d }" % (w, s0 + 2, s0, s0 + 3)], "E43", "tag-value-inside-later-range")
    add(["enum V1 : %d { R = %d..%d, A = %d }" % (w, s0 + 1, s0 + 3, s0)], "OK", "control:tag-next-to-range")
    add(["enum V1 : %d { A = 0, X = .., Y = .. }" % w], "E44", "two-default-tags")

    # E45..E49 optional fields
    ctx = pick_ctx(r)
    tails = ["x: 8[] if c = 1", "x: 8[2] if c = 1", "_size_(y): 8 if c = 1, y: 8[]", "_padding_[1] if c = 1",
             "_reserved_: 8 if c = 1", "_fixed_ = 1 : 8 if c = 1", "_payload_ if c = 1"]
    t = r.choice(tails)
    if "_padding_" in t:
        flds = ["c: 1", "_reserved_: 7", "q: 8[]", t]
    else:
        flds = ["c: 1", "_reserved_: 7", t]
    if "_payload_" in t:
        ctx = pick_ctx(r, ["root", "struct"])
    add(wrap(r, ctx, flds, post_ok=("_payload_" not in t)), "E45", "if-on-%s|%s" % (t.split(" ")[0].split("(")[0].rstrip(":"), ctx))
    ctx = pick_ctx(r)
    add(wrap(r, ctx, ["x: 8 if nope = 1"]), "E46", "condition-id-missing|" + ctx)
    # "undeclared" also means: declared, as a perfectly good flag, in *another* declaration - a sibling
    # written before or after, the parent, or a group that is not used here
    for where in ("sibling-before", "sibling-after", "parent", "unused-group"):
        flag_decl = {"sibling-before": "packet V1_O { nope: 1, _reserved_: 7 }",
                     "sibling-after": "packet V1_O { nope: 1, _reserved_: 7 }",
                     "unused-group": "group V1_O { nope: 1, _reserved_: 7 }"}.get(where)
        if where == "parent":
            case = ["packet V1_P { nope: 1, _reserved_: 7, _payload_ }", "packet V1 : V1_P { x: 8 if nope = 1 }"]
        elif where == "sibling-before":
            case = [flag_decl] + wrap(r, pick_ctx(r), ["x: 8 if nope = 1"])
        else:
            case = wrap(r, pick_ctx(r), ["x: 8 if nope = 1"]) + [flag_decl]
        add(case, "E46", "condition-id-declared-elsewhere:" + where)
    ctx = pick_ctx(r)
    add(wrap(r, ctx, ["x: 8 if c = 1", "c: 1", "_reserved_: 7"]), "E46", "condition-id-declared-later|" + ctx)
    for cdecl, lab in (("c: 2, _reserved_: 6", "2-bit"), ("c: V8", "typedef"), ("c: 8[1]", "array"), ("c: 8", "8-bit")):
        ctx = pick_ctx(r)
        add(wrap(r, ctx, [cdecl, "x: 8 if c = 1"], extra=base), "E47", "condition-not-1-bit:%s|%s" % (lab, ctx))
    for val, lab in (("2", "2"), ("255", "255"), ("T1", "tag")):
        ctx = pick_ctx(r)
        add(wrap(r, ctx, ["c: 1", "_reserved_: 7", "x: 8 if c = %s" % val]), "E48", "condition-value-%s|%s" % (lab, ctx))
    ctx = pick_ctx(r)
    add(wrap(r, ctx, ["c: 1", "_reserved_: 7", "d: 8 if c = 1", "x: 8 if d = 1"]), "E49", "condition-id-is-optional|" + ctx)
    ctx = pick_ctx(r)
    add(wrap(r, ctx, ["c: 1", "_reserved_: 7", "x: %d if c = %d" % (byte_w(r), r.choice([0, 1]))]), "OK",
        "control:optional-scalar|" + ctx)

    # E51 field offsets
    off = r.choice([1, 7, 9, 15, 3, 4])
    pre = "zo: %d" % off
    for t, lab in (("x: V7", "struct-typedef"), ("x: 8[]", "array"), ("x: V7[2]", "struct-array"), ("_payload_", "payload"),
                   ("_body_", "body"), ("x: V6", "custom-typedef")):
        ctx = pick_ctx(r, ["root", "struct"] if t in ("_payload_", "_body_") else CONTEXTS)
        flds = [pre, t]
        add(wrap(r, ctx, flds, post_ok=False, extra=base), "E51", "misaligned-%s:offset%d|%s" % (lab, off, ctx))
    ctx = pick_ctx(r)
    add(wrap(r, ctx, ["zo: %d" % off, "q: 8[2]", "_padding_[4]"], post_ok=False, extra=base), "E51",
        "misaligned-padded-array:offset%d|%s" % (off, ctx))
    ctx = pick_ctx(r)
    add(wrap(r, ctx, ["zo: %d" % off, "zp: %d" % (8 - off % 8), "x: V7"], extra=base), "OK",
        "control:aligned-after-bits|" + ctx)

    # E52 / E53 sizes
    k = r.randint(1, 7)
    ew = 8 * r.randint(0, 7) + k
    ctx = pick_ctx(r)
    add(wrap(r, ctx, ["x: %d[%s]" % (ew, r.choice(["", "2"]))], post_ok=False), "E52", "array-element-width-%d|%s" % (ew, ctx))
    ctx = pick_ctx(r, ["root", "child", "struct", "child_struct", "group"])
    add(wrap(r, ctx, ["zo: %d" % ew]), "E53", "decl-size-%d-bits|%s" % (ew, ctx))
    return C


def embed(case, host_text_decls, r):
    """Full PDL source: host declarations + the case's, in random order."""
    decls = list(host_text_decls) + list(case.decls)
    r.shuffle(decls)
    return "%s\n%s\n" % (r.choice(["little_endian_packets", "big_endian_packets"]), "\n".join(decls))
