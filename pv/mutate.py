"""Hostile byte-string generators built from reference encodings and their field marks."""
from __future__ import annotations

from .refmodel import umax


def patch_bits(data, mark, value, big):
    """Return data with the bits of `mark` replaced by value."""
    what, path, off, sh, w, cb = mark
    b = bytearray(data)
    word = int.from_bytes(b[off:off + cb], "big" if big else "little")
    word &= ~(umax(w) << sh)
    word |= (value & umax(w)) << sh
    b[off:off + cb] = word.to_bytes(cb, "big" if big else "little")
    return bytes(b)


def read_bits(data, mark, big):
    what, path, off, sh, w, cb = mark
    word = int.from_bytes(data[off:off + cb], "big" if big else "little")
    return (word >> sh) & umax(w)


def interesting_values(w):
    m = umax(w)
    vals = {0, 1, m, max(0, m - 1), m >> 1, (m >> 1) + 1}
    for k in range(0, w, max(1, w // 6)):
        vals.add(1 << k)
    if w >= 8:
        vals.update({2, 3, 7, 8, 0x7F & m, 0x80 & m, 0xFF & m})
    return sorted(v for v in vals if 0 <= v <= m)


def field_targeted(enc, big, kinds=("size", "count", "elementsize", "flag", "enum", "fixed", "scalar",
                                    "reserved"), per_mark=8, rng=None):
    """-> list of (bytes, tag) with one field's bits forced to a boundary value."""
    out = []
    data = bytes(enc.data)
    for mk in enc.marks:
        what = mk[0]
        if what not in kinds:
            continue
        cur = read_bits(data, mk, big)
        vals = [v for v in interesting_values(mk[4]) if v != cur]
        if rng is not None and len(vals) > per_mark:
            vals = rng.sample(vals, per_mark)
        for v in vals[:per_mark]:
            out.append((patch_bits(data, mk, v, big), "field:%s:w%d=%d" % (what, mk[4], v)))
    return out


def prefixes(data, limit=96, rng=None):
    n = len(data)
    if n <= limit:
        idx = range(n)
    else:
        idx = sorted(set(list(range(0, 24)) + list(range(n - 24, n)) +
                         ([rng.randrange(n) for _ in range(limit - 48)] if rng else [])))
    return [(bytes(data[:i]), "prefix") for i in idx]


def extended(data, rng):
    out = []
    for k in (1, 2, 7):
        out.append((bytes(data) + bytes(rng.randrange(256) for _ in range(k)), "extended"))
    out.append((bytes(data) + b"\x00", "extended"))
    return out


def bitflips(data, rng, n=6):
    out = []
    if not data:
        return out
    for _ in range(n):
        b = bytearray(data)
        i = rng.randrange(len(b))
        b[i] ^= 1 << rng.randrange(8)
        out.append((bytes(b), "bitflip"))
    for _ in range(max(1, n // 3)):
        b = bytearray(data)
        i = rng.randrange(len(b))
        b[i] = rng.choice([0x00, 0xFF, 0x80, 0x7F])
        out.append((bytes(b), "byteset"))
    return out


def random_strings(rng, n=6, maxlen=24):
    out = []
    for _ in range(n):
        ln = rng.choice([0, 1, 2, 3, 4, 8, rng.randint(0, maxlen)])
        k = rng.random()
        if k < 0.2:
            s = bytes(ln)
        elif k < 0.4:
            s = b"\xff" * ln
        else:
            s = bytes(rng.randrange(256) for _ in range(ln))
        out.append((s, "random"))
    return out


def all_short(maxlen=2):
    out = [(b"", "short")]
    for a in range(256):
        out.append((bytes([a]), "short"))
    if maxlen >= 2:
        for a in range(256):
            for b in range(256):
                out.append((bytes([a, b]), "short"))
    return out
