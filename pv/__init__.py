"""pdl verification framework (runtime monitoring). See /verif/DESIGN.md."""
