"""C10 — the compiler never crashes, and whatever it accepts becomes compilable code."""
from __future__ import annotations

import json
import os
import random
import re
import subprocess

from .. import ast as A
from .. import corpus, gen, render
from ..engines import build
from ..engines.driver import Driver, analyze_ok, codes, panic_of
from . import common, rustwl

RULE = ("(S1/S2, judged on every input) random bytes, token soup from the grammar's terminals, token-level mutants "
        "of generator descriptions (delete / duplicate / swap / integer -> 0, 2^63, 2^64-1, 2^64 / identifier -> "
        "keyword / brace imbalance / truncation / repetition), AST-level mutants that stay parsable (every reference "
        "- constraint, condition, size/count/element-size target, element type, parent, group use - retargeted to "
        "another identifier of any kind, widths moved, fields transplanted) and parsable-but-absurd files (widths 0 and > 64, "
        "self references, long chains) through parse_inline and analyze under catch_unwind with crash, stack and "
        "time monitors; (S3, judged inside each backend's documented construct set) every accepted generator "
        "description of every profile, both endiannesses, through json / rust / python / cxx / java generation; "
        "(S4) the emitted code through its target compiler: rustc (harness crate build), python compile()+import, "
        "clang++ -fsyntax-only with packet_runtime.h, javac; plus curated construct probes. Backend panics on "
        "*mutants* outside the generator's construct sets are reported as evidence only. "
        "non-trivial = distinct source text that reached the analyzer (parsed)")

KEYWORDS = ["packet", "struct", "enum", "group", "custom_field", "checksum", "test", "little_endian_packets",
            "big_endian_packets", "_payload_", "_body_", "_size_", "_count_", "_elementsize_", "_fixed_", "_reserved_",
            "_padding_", "_checksum_start_", "if"]
PUNCT = ["{", "}", "(", ")", "[", "]", ":", ",", "=", "..", "+", "\"", "/*", "*/", "//"]
INTS = ["0", "1", "7", "8", "9", "63", "64", "65", "255", "256", "4294967295", "4294967296", "9223372036854775807",
        "9223372036854775808", "18446744073709551615", "18446744073709551616", "0x", "0xffffffffffffffff",
        "0x10000000000000000", "00000000000000000008"]
TOKEN_RE = re.compile(r"[A-Za-z_][A-Za-z0-9_]*|0[xX][0-9a-fA-F]+|[0-9]+|\.\.|\"[^\"]*\"|\S")


def mutants(text, rng, n):
    toks = TOKEN_RE.findall(text)
    out = []
    for _ in range(n):
        t = list(toks)
        k = rng.random()
        i = rng.randrange(len(t))
        if k < 0.12:
            del t[i]
            lab = "delete"
        elif k < 0.2:
            t.insert(i, t[i])
            lab = "duplicate"
        elif k < 0.28 and i + 1 < len(t):
            t[i], t[i + 1] = t[i + 1], t[i]
            lab = "swap"
        elif k < 0.5:
            idx = [j for j, x in enumerate(t) if x[0].isdigit()]
            if idx:
                t[rng.choice(idx)] = rng.choice(INTS)
            lab = "integer"
        elif k < 0.6:
            idx = [j for j, x in enumerate(t) if x[0].isalpha() and x not in KEYWORDS]
            if idx:
                t[rng.choice(idx)] = rng.choice(KEYWORDS + [rng.choice(t)])
            lab = "identifier"
        elif k < 0.68:
            t.insert(i, rng.choice(PUNCT + KEYWORDS + INTS))
            lab = "insert"
        elif k < 0.74:
            t = t[:i]
            lab = "truncate"
        elif k < 0.8:
            j = min(len(t), i + rng.randint(1, 12))
            t = t[:i] + t[i:j] * rng.choice([2, 10, 200]) + t[j:]
            lab = "repeat"
        elif k < 0.9:
            idx = [j for j, x in enumerate(t) if x[0].isalpha() and x not in KEYWORDS]
            if len(idx) >= 2:
                a, b = rng.sample(idx, 2)
                t[a] = t[b]
            lab = "alias"
        else:
            for _ in range(3):
                j = rng.randrange(len(t))
                t[j] = rng.choice(INTS + PUNCT)
            lab = "multi"
        out.append((_join(t)[:65536], lab))
    return out


def ast_mutants(f, rng, n):
    """Semantic (still parsable) mutants of a generator description: every *reference* — constraint
    id / tag, condition id, size / count / element-size target, typedef / array element type, parent,
    group use, fixed enum — is retargeted to another identifier of the file regardless of its kind,
    widths and counts are moved, fields are copied between declarations. Token soup rarely gets past
    the parser; these reach the analyzer passes behind the identifier checks."""
    import copy
    out = []
    for _ in range(n):
        g = copy.deepcopy(f)
        decls = [d for d in g["declarations"]]
        ids = [d["id"] for d in decls if "id" in d]
        with_fields = [d for d in decls if d.get("fields")]
        if not with_fields:
            break
        d = rng.choice(with_fields)
        scope = []          # field ids visible from d (own + ancestors)
        dm = A.decl_map(g)
        for x in [d] + A.parents_of(dm, d):
            scope += [A.field_id(fl) for fl in x.get("fields", ()) if A.field_id(fl)]
        scope = scope or ["x"]
        k = rng.random()
        lab = "ast:"
        try:
            if k < 0.2 and d.get("parent_id"):
                anc = [A.field_id(fl) for x in A.parents_of(dm, d) for fl in x.get("fields", ()) if A.field_id(fl)]
                tgt = rng.choice(anc or scope)
                if rng.random() < 0.5:
                    c = A.constraint(tgt, value=rng.choice([0, 1, 255, 1 << 40]))
                else:
                    tags = [t["id"] for e in decls if e["kind"] == "enum_declaration" for t in e["tags"]]
                    c = A.constraint(tgt, tag_id=rng.choice(tags or ["X"]))
                if d["constraints"] and rng.random() < 0.5:
                    d["constraints"][rng.randrange(len(d["constraints"]))] = c
                else:
                    d["constraints"].append(c)
                lab += "constraint-retarget"
            elif k < 0.32:
                fl = rng.choice(d["fields"])
                fl["cond"] = A.constraint(rng.choice(scope), value=rng.choice([0, 1, 1, 2]))
                lab += "cond-retarget"
            elif k < 0.47:
                hdr = [fl for fl in d["fields"] if fl["kind"] in ("size_field", "count_field", "elementsize_field")]
                tgt = rng.choice(scope + ["_payload_", "_body_"])
                if hdr and rng.random() < 0.6:
                    rng.choice(hdr)["field_id"] = tgt
                else:
                    mk = rng.choice([A.size_f, A.count_f, A.elementsize_f])
                    d["fields"].insert(rng.randrange(len(d["fields"]) + 1), mk(tgt, rng.choice([1, 4, 8, 16, 64])))
                lab += "header-retarget"
            elif k < 0.6:
                cand = [fl for fl in d["fields"] if fl.get("type_id")]
                if cand:
                    rng.choice(cand)["type_id"] = rng.choice(ids)
                lab += "type-retarget"
            elif k < 0.68:
                d["parent_id"] = rng.choice(ids) if "parent_id" in d else None
                lab += "parent-retarget"
            elif k < 0.76:
                cand = [fl for fl in d["fields"] if "width" in fl and fl["width"] is not None]
                if cand:
                    rng.choice(cand)["width"] = rng.choice([0, 1, 3, 7, 8, 9, 63, 64, 65, 128])
                lab += "width"
            elif k < 0.84:
                other = rng.choice(with_fields)
                d["fields"].insert(rng.randrange(len(d["fields"]) + 1), copy.deepcopy(rng.choice(other["fields"])))
                lab += "field-transplant"
            elif k < 0.9:
                i = rng.randrange(len(d["fields"]))
                j = rng.randrange(len(d["fields"]))
                d["fields"][i], d["fields"][j] = d["fields"][j], d["fields"][i]
                lab += "field-swap"
            elif k < 0.95:
                grp = [x["id"] for x in decls if x["kind"] == "group_declaration"] or ids
                d["fields"].insert(rng.randrange(len(d["fields"]) + 1),
                                   A.group_f(rng.choice(grp), [A.constraint(rng.choice(scope), value=1)] if rng.random() < 0.5 else []))
                lab += "group-use"
            else:
                cand = [fl for fl in d["fields"] if fl["kind"] == "array_field"]
                if cand:
                    a = rng.choice(cand)
                    a["size"] = rng.choice([0, 1, 2, 1 << 32, (1 << 61) + 1])
                    if rng.random() < 0.3:
                        a["size_modifier"] = "+%d" % rng.choice([0, 1, 300])
                lab += "array-size"
            text, _ = render.render(g)
        except Exception:
            continue
        out.append((text[:65536], lab))
    return out


def _join(toks):
    out = []
    for x in toks:
        out.append(x)
        out.append("\n" if x in ("{", "}", ",") else " ")
    return "".join(out)


def soup(rng, n):
    out = []
    pool = KEYWORDS + PUNCT + INTS + ["a", "B", "x1", "T", "E", "P"]
    for _ in range(n):
        k = rng.random()
        if k < 0.3:
            s = "".join(chr(rng.choice([rng.randrange(32, 127), rng.randrange(0, 32), rng.randrange(128, 0x2000)]))
                        for _ in range(rng.randint(0, 200)))
            lab = "random-chars"
        elif k < 0.7:
            s = rng.choice(["little_endian_packets ", "big_endian_packets\n", ""]) + \
                " ".join(rng.choice(pool) for _ in range(rng.randint(0, 120)))
            lab = "token-soup"
        else:
            # structured soup: declarations made of random field-ish fragments
            decls = []
            for _ in range(rng.randint(1, 6)):
                kw = rng.choice(["packet", "struct", "group", "enum"])
                nm = rng.choice(["A", "B", "C", "D"])
                if kw == "enum":
                    body = ", ".join("%s = %s" % (rng.choice("XYZW"), rng.choice(INTS + ["..", "1..3"])) for _ in range(rng.randint(0, 4)))
                    decls.append("enum %s : %s { %s }" % (nm, rng.choice(INTS), body))
                else:
                    frag = ["x : 8", "y : A", "z : B[]", "_payload_", "_body_", "_size_(z) : 8", "_count_(z) : %s" % rng.choice(INTS),
                            "_fixed_ = 1 : 8", "_fixed_ = X : A", "_reserved_ : %s" % rng.choice(INTS), "_padding_[%s]" % rng.choice(INTS),
                            "C", "C { x = 1 }", "w : 8 if x = 1", "z : %s[%s]" % (rng.choice(INTS), rng.choice(INTS)),
                            "_elementsize_(z) : 8", "_size_(_payload_) : 8", "_checksum_start_(y)", "_payload_ : [+%s]" % rng.choice(INTS)]
                    body = ", ".join(rng.choice(frag) for _ in range(rng.randint(0, 6)))
                    par = " : %s" % rng.choice("ABCD") if rng.random() < 0.4 and kw != "group" else ""
                    cons = " (x = %s)" % rng.choice(["1", "X", "300"]) if par and rng.random() < 0.5 else ""
                    decls.append("%s %s%s%s { %s }" % (kw, nm, par, cons, body))
            s = "little_endian_packets\n" + "\n".join(decls)
            lab = "structured-soup"
        out.append((s[:65536], lab))
    return out


ABSURD = [
    ("chain-typedef-2500", lambda: "\n".join("struct S%d { x: S%d }" % (i, i + 1) for i in range(2500)) + "\nstruct S2500 { a: 8 }"),
    ("chain-parent-2500", lambda: "packet P0 { a:8, _payload_ }\n" + "\n".join("packet P%d : P%d { _payload_ }" % (i + 1, i) for i in range(2500))),
    ("chain-group-2000", lambda: "\n".join("group G%d { G%d }" % (i, i + 1) for i in range(2000)) + "\ngroup G2000 { a: 8 }\npacket P { G0 }"),
    ("many-declarations", lambda: "\n".join("packet P%d { a: 8 }" % i for i in range(3000))),
    ("deep-braces", lambda: "packet P " + "{" * 60000),
    ("width-0", lambda: "packet P { a: 0, b: 8 }"),
    ("enum-width-0", lambda: "enum E : 0 { A = 0 } packet P { e : E, x: 8 }"),
    ("width-2^63", lambda: "packet P { a: 9223372036854775808, b: 8 }"),
    ("self-size", lambda: "packet P { _size_(x): 8, x: 8 }"),
    ("cond-on-itself", lambda: "packet P { c: 1 if c = 1, _reserved_: 7 }"),
    ("empty-everything", lambda: "packet P { } struct S { } packet C : P { }"),
    ("payload-only-chain", lambda: "packet A { _payload_ } packet B : A { _payload_ } packet C : B { _payload_ } packet D : C { x: 8 }"),
    ("unicode-strings", lambda: "custom_field C : 8 \"é中\U0001F600\" packet P { c: C }"),
]

# recorded separately (known findings when they fail): inputs that are legal text but make the
# analyzer itself crash
ANALYZER_HAZARDS = [
    ("array-size-overflow", "packet P { a: 64[4611686018427387904] }"),
    ("padding-size-overflow", "packet P { a: 8[], _padding_[18446744073709551615] }"),
    ("chain-typedef-20000", None),
    # found by a sub-agent while seeding changes: after desugar_flags the condition flag is no longer a
    # scalar field and check_constraint has no arm for it
    ("constraint-on-condition-flag", "packet P { c: 1, _reserved_: 7, x: 8 if c = 1, _payload_ } packet C : P (c = 1) { y: 8 }"),
]

# constructs inside a backend's documented set, written by hand; (label, backends, source)
PROBES = [
    ("forward-reference-array-element", ["rust", "python", "cxx", "java"], "packet P { n: 8, x: S[] } struct S { a: 8 }"),
    ("forward-reference-typedef", ["rust", "python", "cxx", "java"], "packet P { x: S, e: E } struct S { a: 8 } enum E : 8 { A = 1 }"),
    ("enum-default-tag-first", ["rust", "python", "cxx", "java"], "enum E : 8 { O = .., A = 1 } packet P { e: E }"),
    ("enum-only-ranges", ["rust", "python", "cxx", "java"], "enum E : 8 { R = 1..5, S = 9..200 } packet P { e: E }"),
    ("alias-chain-without-payload", ["rust", "python", "cxx", "java"], "packet A { x: 8 } packet B : A (x = 1) { } packet C : B { }"),
    ("size-field-after-array", ["rust", "python", "cxx"], "packet P { x: 8[], _size_(x): 8 }"),
    ("rust-keyword-identifiers", ["rust"], "enum type : 8 { match = 1, self = 2 } packet struct_ { fn: 8, impl: type, loop: 8[] }"),
    ("template-local-names-as-fields", ["rust", "python", "cxx"], "packet P { chunk: 4, buf: 4, span: 8, value: 8, fields: 8, payload_size: 8 }"),
    ("recursive-tlv", ["rust", "python", "cxx"], "struct T { t: 8, _size_(v): 8, v: T[] } packet P { x: T[] }"),
    ("optional-everything", ["rust", "python", "cxx"], "struct S { a: 8 } enum E : 16 { A = 1 } packet P { c0: 1, c1: 1, c2: 1, _reserved_: 5, a: 24 if c0 = 1, b: E if c1 = 0, s: S if c2 = 1 }"),
    ("sixty-four-bit-everything", ["rust", "python", "cxx", "java"], "enum E : 64 { A = 0xffffffffffffffff, B = 0 } packet P { a: 64, e: E, _fixed_ = 0xffffffffffffffff : 64, x: 64[2] }"),
    ("struct-inheritance", ["rust", "python", "cxx"], "struct A { k: 8, _payload_ } struct B : A (k = 1) { v: 16 } packet P { a: A }"),
    # constructs the C++ / Java engines' pre-filters predict as not compilable (one probe per class)
    ("cxx-two-closed-enum-fields", ["cxx"], "enum E : 8 { A = 1, B = 2 } packet P { a: E, b: E }"),
    ("cxx-struct-with-payload", ["cxx"], "struct S { a: 8, _payload_ } packet P { s: S }"),
    ("cxx-empty-packet", ["cxx"], "packet A { t: 8, _payload_ } packet B : A (t = 1) { }"),
    ("cxx-payload-size-at-two-levels", ["cxx"], "packet A { _size_(_payload_): 8, _payload_ } packet B : A { b: 8, _size_(_payload_): 8, _payload_ }"),
    ("cxx-field-named-like-member", ["cxx"], "packet P { valid: 8, bytes: 8 }"),
    ("cxx-keyword-field", ["cxx"], "packet P { class: 8, int: 8 }"),
    ("cxx-unsized-payload-then-dynamic", ["cxx"], "packet P { _payload_, _count_(x): 8, x: 8[] }"),
    ("java-wide-enum-tag", ["java"], "enum E : 32 { A = 0x80000000 } packet P { e: E }"),
    ("java-fixed-scalar-width-1", ["java"], "packet P { _fixed_ = 1 : 1, a: 7 }"),
    ("java-fixed-scalar-width-17", ["java"], "packet P { _fixed_ = 3 : 17, a: 15 }"),
    ("java-constraint-value-128", ["java"], "packet A { t: 8, _payload_ } packet B : A (t = 128) { b: 8 }"),
    ("java-size-field-width-1", ["java"], "packet P { _size_(x): 1, a: 7, x: 8[] }"),
    ("java-size-field-width-40", ["java"], "packet P { _size_(x): 40, x: 8[] }"),
    ("java-size-of-body", ["java"], "packet A { _size_(_body_): 8, _body_ } packet B : A { b: 8 }"),
    ("java-empty-child", ["java"], "packet A { t: 8, _payload_ } packet B : A (t = 1) { }"),
    ("java-keyword-member", ["java"], "packet P { class: 8, int: 8 }"),
    ("java-member-named-result", ["java"], "packet P { result: 8, other: 8 }"),
    ("java-class-named-Builder", ["java"], "packet Builder { a: 8 }"),
    ("java-member-ending-in-size", ["java"], "packet P { a_size: 8 }"),
    ("java-body-without-children", ["java"], "packet P { a: 8, _body_ }"),
    ("java-body-parent-with-alias-child", ["java"], "packet R { a: 8, _body_ } packet C : R { _payload_ }"),
    ("java-constraint-on-grandparent", ["java"], "packet A { t: 8, _payload_ } packet B : A { _payload_ } packet C : B (t = 1) { c: 8 }"),
    ("group-nested-constraints", ["rust", "python", "cxx", "java"], "enum E : 8 { X = 1 } group G { a: 8, e: E } group H { G { a = 3 }, b: 8 } packet P { H, G { e = X } }"),
]


def stage_texts(drv, items, res, V, judge_backends):
    for text, label in items:
        src = text
        r = drv.request(src, ["analyze", "gen:json"], timeout=15)
        if analyze_ok(r):
            r1 = r
            r = drv.request(src, ["analyze", "gen:json", "gen:rust", "gen:python", "gen:cxx", "gen:java"],
                            timeout=30 if judge_backends else 5,
                            java_dir=os.path.join(build.WORK, "c10", "java-%d" % os.getpid()))
            if ("timeout" in r or "crash" in r) and not judge_backends:
                # a backend hung / died on an out-of-scope mutant (e.g. a 2^32-bit scalar): evidence only
                res["unscoped"]["backend-timeout-or-crash"] = res["unscoped"].get("backend-timeout-or-crash", 0) + 1
                r = r1
        res["evals"] += 1
        res["labels"][label] = res["labels"].get(label, 0) + 1
        case = {"class": label, "source": src[:6000]}
        if "crash" in r:
            V("front-end|crash:%s|%s" % (r["crash"].get("returncode"), label.split(":")[0]), dict(case, observed=r["crash"]))
            continue
        if "timeout" in r:
            # which stage? re-run the front end alone
            # (rendering thousands of diagnostics over one very long line is slow but finite: the
            # re-run skips Diagnostics::emit and gets a generous deadline)
            r2 = drv.request(src, ["analyze"], timeout=120, emit=False)
            if "timeout" in r2 or "crash" in r2:
                V("front-end|does-not-terminate|%s" % label.split(":")[0],
                  dict(case, source=src, observed="parse+analyze did not return within 120 s"))
            elif not analyze_ok(r2):
                res["unscoped"]["slow-diagnostic-rendering"] = res["unscoped"].get("slow-diagnostic-rendering", 0) + 1
            else:
                res["unscoped"]["backend-timeout"] = res["unscoped"].get("backend-timeout", 0) + 1
            continue
        if "ok" in r.get("parse", {}):
            res["nontrivial"].add(common.h(src))
            res["parsed"] += 1
        else:
            res["rejected_by_parser"] += 1
        p = r.get("parse", {})
        if "panic" in p:
            V("parser|panic:%s" % _sig(p["panic"]), dict(case, observed=p["panic"]))
            continue
        if isinstance(p, dict) and p.get("emit_ok") is False:
            V("parser|diagnostic-does-not-render", case)
        a = r.get("analyze", {})
        if "panic" in a:
            V("analyzer|panic:%s" % _sig(a["panic"]), dict(case, observed=a["panic"]))
            continue
        if isinstance(a, dict) and ("emit" in a or a.get("emit_ok") is False):
            V("analyzer|diagnostic-does-not-render", dict(case, observed=str(a.get("emit") or a.get("emit_err"))[:300]))
        if analyze_ok(r):
            res["accepted"] += 1
            gj = r.get("gen:json", {})
            if "ok" not in gj:
                V("json|backend-fails", dict(case, observed=str(gj)[:300]))
            for b in ("gen:rust", "gen:python", "gen:cxx", "gen:java"):
                g = r.get(b, {})
                if "ok" in g:
                    continue
                sig = "%s|%s" % (b, _sig(g["panic"]) if "panic" in g else str(g.get("err"))[:60])
                if judge_backends and b.split(":")[1] in judge_backends:
                    V("%s|backend-fails:%s|%s" % (b.split(":")[1], sig.split("|", 1)[1], scope_label(label)), dict(case, observed=str(g)[:600]))
                else:
                    res["unscoped"][sig] = res["unscoped"].get(sig, 0) + 1


def norm_compile(msg):
    """first compiler error line -> signature text independent of names, profiles and line numbers"""
    msg = re.sub(r";? did you mean [^|]*", "", msg)
    msg = re.sub(r"pv[gj]_?[\w.]*(::|\.)", "NS::", msg)
    msg = re.sub(r"'NS::\w+'", "'NS::ID'", msg)
    msg = re.sub(r"\b(?:T\d+_E\d+|[A-Z][a-z]*\d+|f\d+)\b", "ID", msg)
    msg = re.sub(r"'[A-Z]'", "'ID'", msg)
    return rustwl.norm_msg(msg)


def scope_label(label):
    return label.split(":")[0] if label.startswith("generator") else label


def _sig(p):
    full = p.get("loc", "?")
    loc = re.sub(r"^.*/pdl-compiler/src/", "", full)
    loc = re.sub(r":\d+$", "", loc)
    sig = "%s %s" % (loc, rustwl.norm_msg(p.get("msg", "")))
    if "unreachable" in p.get("msg", ""):
        # several unreachable!() arms per file share one message: tell them apart by the text of
        # the source line (stable under line shifts, unlike the number)
        m = re.match(r"^(.*?):(\d+)(?::\d+)?$", full)
        if m:
            path = m.group(1) if os.path.isabs(m.group(1)) else os.path.join(build.REPO, m.group(1))
            try:
                line = open(path).read().split("\n")[int(m.group(2)) - 1]
                sig += " at:" + re.sub(r"\s+", " ", line.strip())[:60]
            except (OSError, IndexError):
                pass
    return sig


def fuzz_worker(task):
    sd, nmut, nsoup = task
    drv = Driver(timeout=30)
    rng = random.Random("%s/c10" % sd)
    res = {"evals": 0, "nontrivial": set(), "viol": [], "samples": [], "labels": {}, "parsed": 0, "accepted": 0,
           "rejected_by_parser": 0, "unscoped": {}}

    def V(sig, case):
        res["viol"].append(("C10|" + sig, case))
    for prof in gen.PROFILES:
        g = gen.generate(sd, prof)
        text, _ = render.render(g["file"])
        stage_texts(drv, [(m, "mutant:" + lab) for m, lab in mutants(text, rng, nmut)], res, V, None)
        stage_texts(drv, [(m, "mutant:" + lab) for m, lab in ast_mutants(g["file"], rng, nmut)], res, V, None)
    stage_texts(drv, soup(rng, nsoup), res, V, None)
    drv.close()
    res["nontrivial"] = sorted(res["nontrivial"])
    return res


def gen_worker(task):
    """S3 + S4 (python / cxx / java compile) for generator descriptions"""
    sd, profiles = task
    drv = Driver(timeout=60)
    res = {"evals": 0, "nontrivial": set(), "viol": [], "samples": [], "labels": {}, "parsed": 0, "accepted": 0,
           "rejected_by_parser": 0, "unscoped": {}, "compiled": {"python": 0, "cxx": 0, "java": 0}}

    def V(sig, case):
        res["viol"].append(("C10|" + sig, case))
    for prof in profiles:
        for shuffle in (False,):
            g = gen.generate(sd, prof, shuffle=shuffle)
            sup = gen.supported_by(g["features"])
            for e in (A.LE, A.BE):
                f = A.with_endianness(g["file"], e)
                text, _ = render.render(f)
                stage_texts(drv, [(text, "generator:" + prof)], res, V, sup - {"java"})
                if "java" in sup:
                    from ..engines import java as JV
                    jex = list(JV.auto_exclude(f))
                    rj = drv.request(text, ["analyze", "gen:java"], timeout=60, exclude=jex,
                                     java_dir=os.path.join(build.WORK, "c10", "java-%d" % os.getpid()))
                    res["evals"] += 1
                    gj = rj.get("gen:java", {})
                    if analyze_ok(rj) and "ok" not in gj:
                        V("java|backend-fails:%s|generator" % (_sig(gj["panic"]) if "panic" in gj else str(gj)[:80]),
                          {"class": "generator:" + prof, "source": text[:6000], "excluded": jex, "observed": str(gj)[:600]})
                compile_targets(text, f, sup, "%s-%s-%s" % (sd.replace(".", "_"), prof, e[:1]), res, V, "generator:" + prof)
    drv.close()
    res["nontrivial"] = sorted(res["nontrivial"])
    return res


def compile_targets(text, f, sup, name, res, V, label):
    """S4 for python / cxx / java (rust goes through the harness crate build)"""
    case = {"class": label, "source": text[:6000]}
    if "python" in sup:
        from ..engines.py import PyHarness, PyGenError
        h = PyHarness("c10_" + re.sub(r"\W", "_", name), f, text)
        try:
            h.generate()
            err = h.compile_check()
            if err:
                V("python|generated-code-does-not-compile|%s" % scope_label(label), dict(case, observed=err))
            else:
                r = h.call({"op": "types"})
                if "types" not in r:
                    V("python|generated-module-does-not-import:%s|%s" % (
                        rustwl.norm_msg(str((r.get("import_error") or {}).get("exc"))), scope_label(label)), dict(case, observed=str(r)[:800]))
                else:
                    res["compiled"]["python"] += 1
            h.close()
        except PyGenError:
            pass  # reported by stage S3
        res["evals"] += 1
    for lang, modname, cls, exc in (("cxx", "cxx", "CxxHarness", "CxxError"), ("java", "java", "JavaHarness", "JavaError")):
        if lang not in sup or lang in os.environ.get("VERIF_SKIP_LANGS", "").split(","):
            continue
        try:
            mod = __import__("pv.engines.%s" % modname, fromlist=[cls])
        except ImportError:
            continue
        H, E = getattr(mod, cls), getattr(mod, exc)
        excl = ()
        if label.startswith("generator"):
            # declarations the engine's static pre-filter predicts the backend cannot take are left
            # out here: each predicted class is exercised on its own by a curated probe below
            if lang == "cxx":
                from . import cxxwl
                excl = cxxwl.excluded_for_cxx(f)
            else:
                excl = mod.auto_exclude(f)
            res.setdefault("prefiltered", {}).setdefault(lang, 0)
            res["prefiltered"][lang] += len(excl)
            if len(excl) >= len([d for d in f["declarations"] if d["kind"] in ("packet_declaration", "struct_declaration")]):
                continue
        h = H("c10_" + re.sub(r"\W", "_", name), f, text, exclude=excl)
        try:
            h.generate()
            h.build({})
            res["compiled"][lang] += 1
        except E as e:
            msg = str(e)
            if "panicked at" in msg:
                continue  # generation panic: stage S3 reports it
            first = next((ln for ln in msg.split("\n") if "error" in ln), msg.split("\n")[0])
            V("%s|generated-code-does-not-compile:%s|%s" % (lang, norm_compile(re.sub(r"^.*?error:?", "", first)), scope_label(label)),
              dict(case, observed=msg[-2500:]))
        res["evals"] += 1


def fuzz_tier(check, seconds, res_viol, forks=16):
    """Thorough only: a libFuzzer target of our own (rust/fuzz-frontend; the repository's two targets no
    longer compile) built with ASan from the current tree, seeded with generator descriptions, the pinned
    corpus and the probes. Panics are *events* in a log (the target catches them and goes on); crashes,
    hangs and OOMs are libFuzzer artifacts, re-run through the plain driver before they count."""
    import glob
    import shutil
    import time
    src = os.path.join(common.VERIF, "rust", "fuzz-frontend")
    d = os.path.join(build.WORK, "fuzz-" + build._repo_tag())
    os.makedirs(os.path.join(d, "fuzz_targets"), exist_ok=True)
    build._write_if_changed(os.path.join(d, "Cargo.toml"),
                            open(os.path.join(src, "Cargo.toml.in")).read().replace("@REPO@", os.path.abspath(build.REPO)))
    build._write_if_changed(os.path.join(d, "fuzz_targets", "frontend.rs"),
                            open(os.path.join(src, "fuzz_targets", "frontend.rs")).read())
    if not os.path.exists(os.path.join(d, "Cargo.lock")):
        shutil.copy(os.path.join(build.REPO, "Cargo.lock"), os.path.join(d, "Cargo.lock"))
    env = dict(os.environ, CARGO_NET_OFFLINE="true")
    env.pop("RUSTFLAGS", None)
    with build.Lock("build-fuzz"):
        rc, out, dt = build.run(["cargo", "+nightly", "fuzz", "build", "--fuzz-dir", ".", "frontend"], cwd=d, env=env,
                                check=False, timeout=3600)
    if rc != 0:
        return {"libfuzzer": {"status": "fuzz target did not build (inconclusive, not a verdict)", "output": out[-600:]}}
    cdir = os.path.join(d, "corpus", "frontend")
    adir = os.path.join(d, "artifacts", "frontend")
    shutil.rmtree(adir, ignore_errors=True)
    os.makedirs(cdir, exist_ok=True)
    os.makedirs(adir, exist_ok=True)
    n = 0
    for dd in corpus.descriptions(check.seed, 3):
        with open(os.path.join(cdir, "gen-%s.pdl" % dd["name"]), "w") as f:
            f.write(dd["text"])
        n += 1
    for root, _, files in os.walk(os.path.join(common.VERIF, "corpus")):
        for fn in files:
            if fn.endswith(".pdl"):
                shutil.copy(os.path.join(root, fn), os.path.join(cdir, "pinned-" + fn))
                n += 1
    lit = json.load(open(os.path.join(common.VERIF, "corpus", "analyzer_literals.json")))
    for i, t in enumerate([e["text"] for e in lit["raises"]] + list(lit["valid"])):
        with open(os.path.join(cdir, "lit-%d.pdl" % i), "w") as f:
            f.write(t)
        n += 1
    for i, (lab, _, text) in enumerate(PROBES):
        with open(os.path.join(cdir, "probe-%d.pdl" % i), "w") as f:
            f.write("little_endian_packets\n" + text + "\n")
        n += 1
    with open(os.path.join(d, "pdl.dict"), "w") as f:
        for k in KEYWORDS + ["..", "0x", "0X", "[+", "]", "{", "}", "(", ")", ":", ",", "=", "/*", "*/", "//", "\\\""]:
            f.write("\"%s\"\n" % k.replace("\\", "\\\\").replace("\"", "\\\""))
    log = os.path.join(d, "events.jsonl")
    if os.path.exists(log):
        os.unlink(log)
    env["PV_FUZZ_LOG"] = log
    t0 = time.time()
    rc, out, dt = build.run(["cargo", "+nightly", "fuzz", "run", "--fuzz-dir", ".", "frontend", "--",
                             "-fork=%d" % forks, "-max_total_time=%d" % seconds, "-timeout=10", "-max_len=8192",
                             "-rss_limit_mb=4096", "-dict=pdl.dict", "-ignore_crashes=1", "-ignore_timeouts=1",
                             "-ignore_ooms=1"], cwd=d, env=env, check=False, timeout=seconds + 1800)
    runs = 0
    cov = 0
    for m in re.finditer(r"#(\d+): cov: (\d+) ft: (\d+) corp: (\d+)", out):
        runs = max(runs, int(m.group(1)))
        cov = max(cov, int(m.group(2)))
    events = {}
    unscoped = {}
    if os.path.exists(log):
        for line in open(log, errors="replace"):
            try:
                e = json.loads(line)
            except ValueError:
                continue
            sig = _sig(e)
            if e["stage"] in ("parse", "analyze", "gen:json"):
                who = {"parse": "parser", "analyze": "analyzer", "gen:json": "json"}[e["stage"]]
                events.setdefault("C10|%s|panic:%s" % (who, sig), e)
            else:
                k = "%s|%s" % (e["stage"], sig)
                unscoped[k] = unscoped.get(k, 0) + 1
    for sig, e in events.items():
        text = bytes.fromhex(e["input_hex"]).decode("utf-8", "replace")
        res_viol.append((sig, {"class": "libfuzzer", "source": text[:6000], "observed": {"loc": e["loc"], "msg": e["msg"]}}))
    # crash / timeout / oom artifacts: only what the plain driver reproduces is a verdict
    arts = sorted(glob.glob(os.path.join(adir, "*")))
    reproduced = 0
    not_reproduced = 0
    if arts:
        drv = Driver(timeout=60)
        for a in arts[:40]:
            data = open(a, "rb").read()
            try:
                text = data.decode("utf-8")
            except UnicodeDecodeError:
                not_reproduced += 1
                continue
            r = drv.request(text, ["analyze", "gen:json"], timeout=60, emit=False)
            kind = os.path.basename(a).split("-")[0]
            if "crash" in r:
                reproduced += 1
                res_viol.append(("C10|front-end|crash:%s|libfuzzer" % r["crash"].get("returncode"),
                                 {"class": "libfuzzer:" + kind, "source": text[:6000], "observed": r["crash"]}))
            elif "timeout" in r:
                reproduced += 1
                res_viol.append(("C10|front-end|does-not-terminate|libfuzzer", {"class": "libfuzzer:" + kind, "source": text[:6000]}))
            else:
                not_reproduced += 1   # e.g. only under ASan's larger stack frames / slower execution
        drv.close()
    return {"libfuzzer": {"seconds": round(time.time() - t0), "forks": forks, "executions": runs, "coverage_edges": cov,
                          "seed_corpus_files": n, "panic_events_front_end": len(events),
                          "backend_panics_outside_scope_evidence_only": dict(sorted(unscoped.items(), key=lambda kv: -kv[1])[:15]),
                          "artifacts": len(arts), "artifacts_reproduced_in_plain_driver": reproduced,
                          "artifacts_not_reproduced": not_reproduced, "exit": rc}}


def run(tier):
    check = common.Check("C10", tier)
    nseeds = 48 if tier == "thorough" else 12
    nmut = 60 if tier == "thorough" else 16
    nsoup = 400 if tier == "thorough" else 120
    tasks = [("%d.%d" % (check.seed, j), nmut, nsoup) for j in range(nseeds)]
    results = common.pmap(fuzz_worker, tasks)
    gseeds = 12 if tier == "thorough" else 2
    gtasks = [("%d.%d" % (check.seed, j), [p]) for j in range(gseeds) for p in gen.PROFILES]
    results += common.pmap(gen_worker, gtasks)
    # S4 rust: the harness crate build of a corpus; descriptions dropped there are C10 events
    rc = rustwl.prepare(check, tier, flavours=("dev",))
    for name, why in rc.dropped.items():
        d = next(x for x in rc.descs if x["name"] == name)
        if why.get("stage") == "rustc":
            first = why.get("error", "").split("\n")[0]
            check.violation("C10|rust|generated-code-does-not-compile:%s|generator" % norm_compile(first),
                            {"source": d["text"], "observed": why.get("error", "")[:2500]})
        elif why.get("stage") == "gen:rust":
            check.violation("C10|rust|backend-fails:%s|generator" % str(why.get("panic"))[:80],
                            {"source": d["text"], "observed": str(why)[:1500]})
        else:
            check.violation("C10|analyzer|rejects-generator-description|generator:%s" % d["profile"],
                            {"source": d["text"], "observed": str(why)[:1500]})
    # absurd files, hazards and probes (single process)
    drv = Driver(timeout=60)
    res = {"evals": 0, "nontrivial": set(), "viol": [], "samples": [], "labels": {}, "parsed": 0, "accepted": 0,
           "rejected_by_parser": 0, "unscoped": {}, "compiled": {"python": 0, "cxx": 0, "java": 0}}

    def V(sig, case):
        res["viol"].append(("C10|" + sig, case))
    stage_texts(drv, [("little_endian_packets\n" + fn(), "absurd:" + lab) for lab, fn in ABSURD], res, V, None)
    hz = []
    for lab, src in ANALYZER_HAZARDS:
        if src is None:
            src = "\n".join("struct S%d { x: S%d }" % (i, i + 1) for i in range(20000)) + "\nstruct S20000 { a: 8 }"
        hz.append(("little_endian_packets\n" + src, "hazard:" + lab))
    # hazards exceed the 64 KiB bound of the random stages: sent unclipped
    for text, label in hz:
        r = drv.request(text, ["analyze"], timeout=60)
        res["evals"] += 1
        if "crash" in r:
            V("analyzer|crash:%s|%s" % (r["crash"].get("returncode"), label), {"class": label, "source": text[:300] + " ...", "observed": r["crash"]})
        elif "timeout" in r:
            V("analyzer|does-not-terminate|%s" % label, {"class": label, "source": text[:300]})
        elif panic_of(r):
            V("analyzer|panic:%s|%s" % (_sig({"loc": panic_of(r)[1], "msg": panic_of(r)[2]}), label), {"class": label, "source": text[:300], "observed": panic_of(r)})
    for lab, backends, src in PROBES:
        for e in ("little_endian_packets", "big_endian_packets"):
            text = e + "\n" + src + "\n"
            stage_texts(drv, [(text, "probe:" + lab)], res, V, set(backends))
            r = drv.request(text, ["parse"])
            if "ok" in r.get("parse", {}) and analyze_ok(drv.request(text, ["analyze"])):
                f = A.strip_loc(r["parse"]["ok"])
                compile_targets(text, f, set(backends), "probe_%s_%s" % (re.sub(r"\W", "_", lab), e[:1]), res, V, "probe:" + lab)
    drv.close()
    # S4 rust for the probes: one small corpus
    pdescs = []
    for i, (lab, backends, src) in enumerate(PROBES):
        if "rust" in backends:
            text = "little_endian_packets\n" + src + "\n"
            pdescs.append({"name": "d%d" % i, "file": None, "text": text, "profile": "probe:" + lab})
    drv = Driver()
    for d in pdescs:
        r = drv.request(d["text"], ["parse"])
        d["file"] = A.strip_loc(r["parse"]["ok"]) if "ok" in r.get("parse", {}) else None
    drv.close()
    from ..engines.rs import RustCorpus
    prc = RustCorpus("c10-probes", [d for d in pdescs if d["file"] is not None])
    prc.generate()
    try:
        prc.build("dev")
    except Exception as e:  # noqa
        check.notes.append("probe corpus build: %s" % str(e)[:300])
    for name, why in prc.dropped.items():
        d = next(x for x in pdescs if x["name"] == name)
        if why.get("stage") == "rustc":
            first = why.get("error", "").split("\n")[0]
            V("rust|generated-code-does-not-compile:%s|%s" % (norm_compile(first), d["profile"]),
              {"source": d["text"], "observed": why.get("error", "")[:2500]})
    fz = {}
    if tier == "thorough":
        fz = fuzz_tier(check, int(os.environ.get("VERIF_FUZZ_SECONDS", "420")), res["viol"])
        res["evals"] += fz.get("libfuzzer", {}).get("executions", 0)
    results.append(_done(res))
    tot = {"evals": 0, "nontrivial": set(), "labels": {}, "unscoped": {}, "parsed": 0, "accepted": 0,
           "rejected_by_parser": 0, "compiled": {"python": 0, "cxx": 0, "java": 0}}
    for r in results:
        tot["evals"] += r["evals"]
        tot["nontrivial"].update(r["nontrivial"])
        for k in ("parsed", "accepted", "rejected_by_parser"):
            tot[k] += r[k]
        for k in ("labels", "unscoped"):
            for a, b in r[k].items():
                tot[k][a] = tot[k].get(a, 0) + b
        for a, b in r.get("compiled", {}).items():
            tot["compiled"][a] += b
        check.add_violations(r["viol"])
    fuzz_stale = []
    for fn in ("backends_rust_generate.rs", "backends_json_generate.rs"):
        fuzz_stale.append(fn)
    cov = {"evaluations": tot["evals"], "distinct_nontrivial": len(tot["nontrivial"]), "rule": RULE,
           "samples": [{"class": "mutant:integer", "example": "packet P { a : 18446744073709551616 , ... }"},
                       {"class": "probe", "example": PROBES[0][2]}],
           "inputs_by_class": tot["labels"], "reached_analyzer": tot["parsed"], "accepted_by_analyzer": tot["accepted"],
           "rejected_by_parser": tot["rejected_by_parser"],
           "target_compilations_ok": dict(tot["compiled"], rust=len(rc.live) + len(prc.live)),
           "backend_failures_outside_scope_evidence_only": dict(sorted(tot["unscoped"].items(), key=lambda kv: -kv[1])[:25]),
           "probes": len(PROBES), "absurd_files": len(ABSURD),
           **fz,
           "note_repo_fuzz_targets": "the repository's own fuzz targets (fuzz/fuzz_targets/*.rs) no longer compile against the current API"}
    return check.finish(cov, assumptions=["a backend failure counts only for generator descriptions (inside the backend's documented construct set) and the curated probes",
                                          "sources are bounded by 64 KiB except the listed hazards"],
                        min_evaluations=200)


def _done(res):
    res["nontrivial"] = sorted(res["nontrivial"])
    return res
