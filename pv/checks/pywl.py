"""Workload over the generated-Python harness (C13, and the Python side of C07/C15/C17)."""
from __future__ import annotations

import json
import random

from .. import ast as A
from .. import corpus, gen
from ..engines.py import PyGenError, PyHarness, match
from ..refmodel import Abstain, DecodeFault, EncodeFault, Model
from ..values import ValueGen
from . import common, rustwl

_DESCS = None
HAZARD_SIDE = {"roundtrip-parse-fails": "parse", "roundtrip-differs": "parse", "non-DecodeError-exception": "parse",
               "rejects-valid": "parse", "accepts-invalid": "parse", "wrong-field-values": "parse",
               "size-property-differs-from-serialized-length": "size"}


def tier_params(tier):
    if tier == "thorough":
        return {"n_per_profile": 10, "nv": 60, "nb": 400}
    return {"n_per_profile": 2, "nv": 16, "nb": 120}


def prepare(check, tier, profiles=None, n_per_profile=None):
    global _DESCS
    p = tier_params(tier)
    # declarations stay in definition-before-use order: the generated module evaluates its type
    # annotations at import time (forward references in array element types are a recorded
    # finding exercised by C10's probes, not by every description here)
    ds = corpus.descriptions(check.seed, n_per_profile or p["n_per_profile"], profiles, shuffle=False)
    _DESCS = [d for d in ds if "python" in gen.supported_by(d["features"])]
    return _DESCS


def roots_of(m):
    return [t for t in rustwl.types_of(m.file)
            if m.dm[t]["kind"] != "custom_field_declaration" and not m.dm[t].get("parent_id")]


def worker(task):
    d = _DESCS[task["di"]]
    props = set(task["props"])
    m = Model(d["file"])
    rng = random.Random("%s/%s/py" % (d["gen_seed"], d["profile"]))
    res = {"evals": 0, "nontrivial": set(), "viol": [], "samples": [], "abstain": 0, "ops": {}, "exc": {},
           "types": 0, "accepted": 0, "rejected": 0, "classes": {}, "c17": [], "child_class_differs": 0,
           "constructs": {}}

    def V(pid, sig, case):
        if pid == "C13" and case.get("type") and sig.split("|")[0].split(":")[0] in HAZARD_SIDE and \
                rustwl.struct_tree_field(m, case["type"]):
            # recorded root cause: a derived struct used as field / element type (the generated code calls
            # Child.parse(span), which needs the parent's field dict). Everything downstream of that call -
            # TypeError, failed round trip, wrong size property - is keyed on it, the class stays in the case.
            case = dict(case, failure=sig)
            sig = "%s-diverges|derived-struct-as-field-type" % HAZARD_SIDE[sig.split("|")[0].split(":")[0]]
        if pid in props:
            case.update({"desc": d["name"], "profile": d["profile"], "gen_seed": d["gen_seed"],
                         "endianness": A.endianness(d["file"]), "pdl": d["text"]})
            res["viol"].append((pid, "%s|python|%s" % (pid, sig), case))

    h = PyHarness(d["name"], d["file"], d["text"])
    try:
        h.generate()
    except PyGenError as e:
        V("C13", "backend-fails|%s" % rustwl.norm_msg(str(e).split("\n")[0]), {"observed": str(e)[-1500:]})
        V("C10", "python|backend-panics|%s" % rustwl.norm_msg(_panic_line(str(e))), {"observed": str(e)[-1500:]})
        return _fin(res)
    err = h.compile_check()
    if err:
        V("C13", "generated-module-does-not-compile", {"observed": err})
        V("C10", "python|generated-code-does-not-compile|%s" % rustwl.norm_msg(err), {"observed": err})
        return _fin(res)
    first = h.call({"op": "types"})
    if "import_error" in first or "crash" in first:
        V("C13", "generated-module-does-not-import|%s" % rustwl.norm_msg(str(first)[:80]), {"observed": str(first)[:1500]})
        V("C10", "python|generated-module-does-not-import", {"observed": str(first)[:1500]})
        h.close()
        return _fin(res)

    def call(req):
        r = h.call(req)
        res["evals"] += 1
        res["ops"][req["op"]] = res["ops"].get(req["op"], 0) + 1
        return r

    for tid in rustwl.types_of(m.file):
        dk = m.dm[tid]["kind"]
        if dk == "custom_field_declaration":
            continue
        res["types"] += 1
        for c in rustwl.type_constructs(m, tid):
            res["constructs"][c] = res["constructs"].get(c, 0) + 1
        vg = ValueGen(m, rng)
        vals = vg.valid_values(tid, task["nv"])
        chain = [x["id"] for x in m.chain(m.dm[tid])]
        root = chain[0]
        cons = ",".join(rustwl.type_constructs(m, tid))[:100]
        for v, enc in vals:
            want = bytes(enc.data).hex()
            r = call({"op": "serialize", "t": tid, "value": v})
            case = {"type": tid, "op": "serialize", "value": v, "expected_hex": want}
            if "crash" in r or "timeout" in r:
                V("C13", "serialize-hangs-or-crashes|%s" % cons, dict(case, observed=rustwl._short(r)))
                continue
            if "construct_exc" in r:
                V("C13", "cannot-construct-valid-value:%s|%s" % (r["construct_exc"].get("exc"), cons), dict(case, observed=r["construct_exc"]))
                continue
            if "ok" not in r:
                V("C13", "serialize-raises-on-valid-value:%s|%s" % (r.get("exc"), cons), dict(case, observed=rustwl._short(r)))
                continue
            res["nontrivial"].add(common.h(d["name"], tid, want))
            if len(r["ok"]) == len(want):
                # C17 judges the implementation's own bytes under both byte orders (see cxxwl)
                res["c17"].append((tid, json.dumps(v, sort_keys=True), r["ok"], [(s.off, s.len) for s in enc.segs]))
            if r["ok"] != want:
                off = rustwl._first_diff(bytes.fromhex(r["ok"]), bytes(enc.data))
                V("C13", "wrong-bytes|%s" % rustwl._locate(m, enc, off), dict(case, observed=r["ok"], first_diff=off))
                continue
            if tid == root and r.get("size") != len(want) // 2:
                V("C13", "size-property-differs-from-serialized-length|%s" % cons,
                  dict(case, observed={"size": r.get("size"), "len": len(want) // 2, "size_exc": r.get("size_exc")}))
            # round trip through the root parser
            r2 = call({"op": "parse", "t": root, "hex": want})
            if "ok" not in r2:
                V("C13", "roundtrip-parse-fails:%s|%s" % (r2.get("exc", "crash"), cons), dict(case, observed=rustwl._short(r2)))
            elif not match(r2["ok"], _cmp_value(m, tid, r2.get("class"), v)):
                V("C13", "roundtrip-differs|%s" % cons, dict(case, observed=r2["ok"], observed_class=r2.get("class")))
            elif r2.get("class") != tid:
                res["child_class_differs"] += 1
            if len(res["samples"]) < 1:
                res["samples"].append({"desc": d["name"], "type": tid, "value": v, "python_hex": r["ok"]})
        if tid != root:
            continue
        # byte strings (root types only: a child's parse() needs the parent's field dict)
        for b, tag in rustwl.inputs_for(m, tid, vals, rng, task["nb"]):
            exp = rustwl.expectation(m, tid, b)
            r = call({"op": "parse", "t": tid, "hex": b.hex()})
            tclass = tag.split(":")[0]
            res["classes"][tclass] = res["classes"].get(tclass, 0) + 1
            case = {"type": tid, "op": "parse", "hex": b.hex(), "input_class": tag,
                    "model": exp[0] if exp[0] != "fault" else {"fault": exp[1], "at": exp[2]}}
            where = rustwl.where_of(m, exp)
            if "timeout" in r:
                V("C13", "does-not-terminate|%s" % where, dict(case, observed="no reply within the watchdog"))
                continue
            if "crash" in r:
                V("C13", "interpreter-dies|%s" % where, dict(case, observed=rustwl._short(r)))
                continue
            if exp[0] == "abstain":
                res["abstain"] += 1
                # still: an exception must be a DecodeError
                if "exc" in r and "DecodeError" not in r.get("mro", []):
                    res["exc"][r["exc"]] = res["exc"].get(r["exc"], 0) + 1
                    V("C13", "non-DecodeError-exception:%s|%s" % (r["exc"].split(".")[-1], where), dict(case, observed=r))
                continue
            if len(b):
                res["nontrivial"].add(common.h(d["name"], tid, b.hex()))
            if "exc" in r:
                res["rejected"] += 1
                res["exc"][r["exc"]] = res["exc"].get(r["exc"], 0) + 1
                if "DecodeError" not in r.get("mro", []):
                    V("C13", "non-DecodeError-exception:%s|%s" % (r["exc"].split(".")[-1], where), dict(case, observed=r))
                elif exp[0] == "ok":
                    V("C13", "rejects-valid:%s|%s" % (r["exc"].split(".")[-1], where), dict(case, observed=r))
            else:
                res["accepted"] += 1
                if exp[0] == "fault":
                    V("C13", "accepts-invalid:%s|%s" % ("+".join(sorted(set(exp[1]))), where), dict(case, observed=r.get("ok")))
                elif r.get("class") in m.dm and r.get("class") != tid and isinstance(exp[1], dict) and any(
                        k in exp[1] and exp[1][k] != m.constraint_int(m.dm[r["class"]], c)
                        for k, c in m.all_constraints(m.dm[r["class"]]).items()):
                    # the parser answered with a descendant class one of whose (own or inherited)
                    # constraints does not hold on these bytes
                    V("C13", "dispatch-selects-child-whose-constraint-fails|%s" % rustwl.shape_of_tree(m, tid),
                      dict(case, observed=r.get("ok"), observed_class=r.get("class"), expected=exp[1]))
                elif not match(r.get("ok"), _cmp_value(m, tid, r.get("class"), exp[1])):
                    V("C13", "wrong-field-values|%s" % rustwl._diff_where(m, tid, r.get("ok") or {}, exp[1]),
                      dict(case, observed=r.get("ok"), expected=exp[1]))
    h.close()
    return _fin(res)


def _relax_nested(m, tid, v, depth=0):
    """the same holds for nested struct fields: a field typed as a struct that has children comes back as
    the most specialized child object, whose `payload` is its own"""
    if not isinstance(v, dict) or tid not in m.dm or depth > 6:
        return v
    out = dict(v)
    for x in m.chain(m.dm[tid]):
        for fl in x.get("fields", ()):
            t = fl.get("type_id") if fl["kind"] in ("typedef_field", "array_field") else None
            if not t or m.kind(t) != "struct_declaration" or fl.get("id") not in out:
                continue
            strip = bool(A.children_of(m.file, t))

            def one(e):
                e = _relax_nested(m, t, e, depth + 1)
                if strip and isinstance(e, dict):
                    e = {k: w for k, w in e.items() if k != "payload"}
                return e
            cur = out[fl["id"]]
            out[fl["id"]] = [one(e) for e in cur] if isinstance(cur, list) else one(cur)
    return out


def _cmp_value(m, tid, cls, v):
    """the generated parsers return the most specialized class they can; a descendant's object
    holds its own payload, so the ancestor's `payload` member is not comparable then"""
    v = _relax_nested(m, tid, v)
    if cls and cls != tid and isinstance(v, dict) and "payload" in v and cls in m.dm and \
            tid in [x["id"] for x in m.chain(m.dm[cls])]:
        return {k: x for k, x in v.items() if k != "payload"}
    return v


def _panic_line(err):
    for ln in err.split("\n"):
        if "panicked at" in ln:
            i = err.split("\n").index(ln)
            nxt = err.split("\n")[i + 1] if i + 1 < len(err.split("\n")) else ""
            return ln.split("panicked at")[1].strip().split(":")[0] + " " + nxt.strip()
    return err.split("\n")[0]


def _fin(res):
    res["nontrivial"] = sorted(res["nontrivial"])
    return res
