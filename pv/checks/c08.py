"""C08 — the analyzer rejects every ill-formed description with the rule's code, renderably."""
from __future__ import annotations

import json
import os
import random

from .. import gen, render, rules
from ..engines import build
from ..engines.driver import Driver, analyze_ok, codes, panic_of
from . import common

RULE = ("rule catalogue pv/rules.py: for each analyzer error code one or more edit operators that violate that "
        "rule and no earlier one, instantiated at random widths (value 2^w vs the accepted control 2^w-1 for "
        "w in 1..63), in every context (root/child packet, struct, child struct, group body; first/middle/last "
        "field) and embedded among the shuffled declarations of a generator description; each case must be "
        "rejected with the rule's code among the diagnostics, every label must lie inside the source on char "
        "boundaries, Diagnostics::emit must succeed, and (sampled) pdlc must exit non-zero with empty stdout; "
        "controls must be accepted; non-trivial = distinct (operator label, parameters) case")


def host_decls(sd, prof):
    g = gen.generate(sd, prof, shuffle=False)
    text, em = render.render(g["file"])
    data = text.encode("utf-8")
    out = []
    for i in range(len(g["file"]["declarations"])):
        a, b = em.spans[("decl", i)]
        out.append(data[a:b].decode("utf-8"))
    return out


def check_labels(res, src):
    """-> list of problems with diagnostics' labels / rendering"""
    probs = []
    a = res.get("analyze", {})
    data = src.encode("utf-8")
    for d in a.get("err", []):
        if d.get("severity") != "Error":
            probs.append(("severity-not-error", d.get("severity")))
        for l in d.get("labels", []):
            if l["file"] != 0:
                probs.append(("label-foreign-file", l))
            elif not (0 <= l["start"] <= l["end"] <= len(data)):
                probs.append(("label-outside-source", l))
            else:
                try:
                    data[:l["start"]].decode("utf-8")
                    data[:l["end"]].decode("utf-8")
                except UnicodeDecodeError:
                    probs.append(("label-not-on-char-boundary", l))
    if "emit" in a:
        probs.append(("emit-panics", a["emit"]))
    elif a.get("emit_ok") is False:
        probs.append(("emit-fails", a.get("emit_err")))
    elif "err" in a and not a.get("emit_text"):
        probs.append(("emit-empty", None))
    return probs


def worker(task):
    sd, rounds, cli_every = task
    drv = Driver(timeout=30)
    res = {"evals": 0, "nontrivial": set(), "viol": [], "samples": [], "by_code": {}, "controls": 0, "cli": 0,
           "labels": 0, "contexts": {}}

    def V(sig, case):
        res["viol"].append(("C08|analyzer|" + sig, case))

    r = random.Random("%s/c08" % sd)
    hosts = [host_decls(sd, p) for p in gen.PROFILES]
    n = 0
    for _ in range(rounds):
        for case in rules.gen_cases(r):
            host = r.choice(hosts) if r.random() < 0.8 else []
            src = rules.embed(case, host, r)
            resp = drv.request(src, ["analyze"])
            res["evals"] += 1
            n += 1
            res["nontrivial"].add(common.h(case.label, "\n".join(case.decls)))
            c = {"label": case.label, "expect": case.expect, "snippet": case.decls, "source": src}
            lab = case.label.split("|")[0]
            if "|" in case.label:
                cx = case.label.split("|")[1]
                res["contexts"][cx] = res["contexts"].get(cx, 0) + 1
            if "crash" in resp or "timeout" in resp or panic_of(resp):
                V("crash:%s|%s" % (str(panic_of(resp) or "crash")[:90], lab), dict(c, observed=str(resp)[:800]))
                continue
            if "ok" not in resp.get("parse", {}):
                V("case-does-not-parse|%s" % lab, dict(c, observed=str(resp.get("parse"))[:600]))
                continue
            got = codes(resp)
            if case.expect == "OK":
                res["controls"] += 1
                if not analyze_ok(resp):
                    V("rejects-well-formed-control:%s|%s" % ("+".join(got), lab), dict(c, observed=got))
                continue
            res["by_code"][case.expect] = res["by_code"].get(case.expect, 0) + 1
            if analyze_ok(resp):
                V("accepts-ill-formed:%s|%s" % (case.expect, lab), c)
                continue
            if case.expect not in got:
                V("wrong-code:%s-instead-of-%s|%s" % ("+".join(got), case.expect, lab), dict(c, observed=got))
                continue
            for kind, detail in check_labels(resp, src)[:2]:
                V("diagnostic:%s|%s" % (kind, case.expect), dict(c, detail=detail))
            res["labels"] += sum(len(d.get("labels", [])) for d in resp["analyze"]["err"])
            if len(res["samples"]) < 2:
                res["samples"].append({"label": case.label, "expect": case.expect, "snippet": case.decls, "codes": got})
            if cli_every and n % cli_every == 0:
                rc, out, err = build.pdlc_text(src, r.choice(["rust", "json", "python", "cxx"]))
                res["cli"] += 1
                res["evals"] += 1
                if rc == 0 or out.strip():
                    V("cli-lets-ill-formed-reach-a-backend|%s" % case.expect,
                      dict(c, observed={"rc": rc, "stdout": out[:300]}))
    drv.close()
    res["nontrivial"] = sorted(res["nontrivial"])
    return res


def replay_literals(check):
    """the project's own raises!/valid! literals through the same observation path"""
    path = os.path.join(common.VERIF, "corpus", "analyzer_literals.json")
    lit = json.load(open(path))
    drv = Driver()
    n = 0
    for e in lit["raises"]:
        if e["code"] in ("E9", "E10"):
            continue  # `test` declarations are dropped by the parser: unobservable
        r = drv.request(e["text"], ["analyze"])
        n += 1
        if e["code"] not in codes(r):
            check.violation("C08|analyzer|project-literal-not-%s" % e["code"], {"text": e["text"], "observed": codes(r)})
    for t in lit["valid"]:
        r = drv.request(t, ["analyze"])
        n += 1
        if not analyze_ok(r):
            check.violation("C08|analyzer|project-valid-literal-rejected", {"text": t, "observed": codes(r)})
    drv.close()
    return n


def run(tier):
    check = common.Check("C08", tier)
    nseeds = 64 if tier == "thorough" else 16
    rounds = 40 if tier == "thorough" else 6
    tasks = [("%d.%d" % (check.seed, j), rounds, 40) for j in range(nseeds)]
    results = common.pmap(worker, tasks)
    tot = {"evals": 0, "nontrivial": set(), "samples": [], "by_code": {}, "controls": 0, "cli": 0, "labels": 0,
           "contexts": {}}
    for r in results:
        tot["evals"] += r["evals"]
        tot["nontrivial"].update(r["nontrivial"])
        for k in ("controls", "cli", "labels"):
            tot[k] += r[k]
        for k in ("by_code", "contexts"):
            for a, b in r[k].items():
                tot[k][a] = tot[k].get(a, 0) + b
        if len(tot["samples"]) < 4:
            tot["samples"].extend(r["samples"][:1])
        check.add_violations(r["viol"])
    nlit = replay_literals(check)
    tot["evals"] += nlit
    missing = [c for c in ["E%d" % i for i in list(range(1, 9)) + list(range(11, 50)) + [51, 52, 53]]
               if c not in tot["by_code"]]
    cov = {"evaluations": tot["evals"], "distinct_nontrivial": len(tot["nontrivial"]), "rule": RULE,
           "samples": tot["samples"] or [{"note": "none"}], "cases_per_code": dict(sorted(tot["by_code"].items(), key=lambda kv: int(kv[0][1:]))),
           "codes_without_operator": missing + ["E9 (unobservable: parser drops test declarations)", "E10 (same)"],
           "accepted_controls": tot["controls"], "cli_samples": tot["cli"], "labels_checked": tot["labels"],
           "contexts": tot["contexts"], "project_literals_replayed": nlit}
    return check.finish(cov, assumptions=["each catalogue operator violates its rule and no rule checked by an earlier analyzer pass",
                                          "E9/E10 cannot be observed: the parser discards `test` declarations"],
                        min_evaluations=200)
