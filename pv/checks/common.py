"""Shared check plumbing: verdicts, known findings, replay files, evidence, parallel map."""
from __future__ import annotations

import hashlib
import json
import multiprocessing as mp
import os
import sys
import time
import traceback

VERIF = os.path.dirname(os.path.dirname(os.path.dirname(os.path.abspath(__file__))))
NPROC = int(os.environ.get("VERIF_NPROC", "16"))


def seed():
    try:
        return int(os.environ.get("VERIF_SEED", "1"))
    except ValueError:
        return int(hashlib.sha1(os.environ["VERIF_SEED"].encode()).hexdigest()[:8], 16)


def load_known():
    path = os.path.join(VERIF, "known_findings.jsonl")
    known, fixed = {}, {}
    if os.path.exists(path):
        for line in open(path):
            line = line.strip()
            if not line:
                continue
            e = json.loads(line)
            (known if e.get("status") == "known" else fixed)[e["signature"]] = e
    return known, fixed


class Inconclusive(Exception):
    pass


class Check:
    def __init__(self, pid, tier):
        self.pid = pid
        self.tier = tier
        self.seed = seed()
        self.t0 = time.time()
        self.violations = {}     # signature -> [cases]
        self.nviol = 0
        self.known, self.fixed = load_known()
        self.notes = []
        self.inconclusive = []

    def log(self, msg):
        print("[%s] %s" % (self.pid, msg), file=sys.stderr, flush=True)

    def violation(self, signature, case):
        """case: JSON-able dict describing the failing execution."""
        self.nviol += 1
        lst = self.violations.setdefault(signature, [])
        if len(lst) < 3:
            lst.append(case)

    def add_violations(self, items):
        for sig, case in items:
            self.violation(sig, case)

    def finish(self, coverage, level="exploration", assumptions=(), min_evaluations=1):
        """Write evidence, print verdict lines, return the exit code."""
        wall = time.time() - self.t0
        new = {s: c for s, c in self.violations.items() if s not in self.known}
        old = {s: c for s, c in self.violations.items() if s in self.known}
        ev = {
            "property_id": self.pid, "tier": self.tier, "seed": self.seed, "level": level,
            "coverage": coverage, "assumptions": list(assumptions), "wall_s": round(wall, 2),
            "violations": len(new),
            "known_findings_observed": sorted(old.keys()),
            "notes": self.notes,
        }
        os.makedirs(os.path.join(VERIF, "evidence"), exist_ok=True)
        with open(os.path.join(VERIF, "evidence", self.pid + ".json"), "w") as f:
            json.dump(ev, f, indent=1, sort_keys=True, default=str)
        for s in sorted(old):
            print("KNOWN-FINDING: property=%s %s -- %s" % (self.pid, s, self.known[s].get("what", "")))
        code = 0
        if new:
            rdir = os.path.join(VERIF, "replays", self.pid)
            os.makedirs(rdir, exist_ok=True)
            for s in sorted(new):
                h = hashlib.sha1(s.encode()).hexdigest()[:10]
                path = os.path.join(rdir, "%s.json" % h)
                with open(path, "w") as f:
                    json.dump({"property": self.pid, "signature": s, "seed": self.seed,
                               "tier": self.tier, "cases": new[s]}, f, indent=1, default=str)
                print("VIOLATION property=%s replay=%s signature=%s" % (self.pid, path, s))
            code = 1
        elif self.inconclusive or coverage.get("evaluations", 0) < min_evaluations:
            reason = "; ".join(self.inconclusive) or "coverage floor not met"
            print("INCONCLUSIVE property=%s reason=%s" % (self.pid, reason))
            code = 2
        print("%s: %s evaluations=%s distinct_nontrivial=%s violations=%d known=%d wall=%.1fs" % (
            self.pid, {0: "HELD", 1: "VIOLATED", 2: "INCONCLUSIVE"}[code], coverage.get("evaluations"),
            coverage.get("distinct_nontrivial"), len(new), len(old), wall))
        return code


# ---------------------------------------------------------------- parallel map
def _call(args):
    fn, task = args
    try:
        return ("ok", fn(task))
    except Exception:
        return ("exc", traceback.format_exc())


def pmap(fn, tasks, nproc=None):
    """Run fn(task) for every task in worker processes (fork); fn must be module-level.
    Raises Inconclusive if a worker fails (harness error is never a verdict)."""
    tasks = list(tasks)
    nproc = min(nproc or NPROC, max(1, len(tasks)))
    if nproc == 1:
        res = [_call((fn, t)) for t in tasks]
    else:
        ctx = mp.get_context("fork")
        with ctx.Pool(nproc) as pool:
            res = pool.map(_call, [(fn, t) for t in tasks], chunksize=1)
    out = []
    for st, r in res:
        if st == "exc":
            raise Inconclusive("worker failed:\n" + r)
        out.append(r)
    return out


def h(*parts):
    return hashlib.sha1(("|".join(str(p) for p in parts)).encode()).hexdigest()[:12]


def main_wrapper(fn):
    """Run a check main(tier) -> exit code; harness errors become exit 2 (INCONCLUSIVE)."""
    import argparse
    ap = argparse.ArgumentParser()
    ap.add_argument("--tier", default=os.environ.get("VERIF_TIER", "quick"))
    a = ap.parse_args()
    try:
        code = fn(a.tier)
    except Inconclusive as e:
        print("INCONCLUSIVE reason=%s" % str(e)[:2000])
        code = 2
    except Exception:
        traceback.print_exc()
        print("INCONCLUSIVE reason=check crashed")
        code = 2
    sys.exit(code)
