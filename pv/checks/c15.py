"""C15 — enum conversions are exact over the entire value space (Rust TryFrom/From; the
Python from_int and C++ IsValid sides are added by the py / cxx engines when available)."""
from __future__ import annotations

import random
import re

from .. import ast as A
from ..refmodel import Model, umax
from . import common, rustwl

RULE = ("for every enum of the run's descriptions (all 8 closed/open x complete/incomplete x ranged/plain "
        "shapes, widths 1..64): try_from scanned over ALL 2^w integers when w <= 16 (and over the rest of "
        "the backing type's range boundaries), and over +-2 neighbourhoods of every tag, range bound, 0, "
        "2^w-1, 2^w and the backing maximum for wider enums; each point checks acceptance, the variant "
        "(named tag wins over its range; range/default variants carry x), back-conversion, every widening "
        "From and the serde value; non-trivial = distinct (description, enum, run of equal class)")


def camel(s):
    words = re.findall(r"[A-Z]+(?=[A-Z][a-z])|[A-Z]?[a-z0-9]+|[A-Z0-9]+", s.replace("_", " "))
    return "".join(w[:1].upper() + w[1:].lower() for w in words)


def backing(w):
    for b in (8, 16, 32, 64):
        if w <= b:
            return b


def intervals(e):
    """scan intervals [lo, hi] for enum info e"""
    w = e.width
    b = backing(w)
    bm = umax(b)
    m = umax(w)
    if w <= 16:
        out = [(0, m)]
        if b > w:
            pts = [m + 1, m + 2, bm - 1, bm, (m + 1) * 2, bm // 2]
            out += [(max(m + 1, p - 2), min(bm, p + 2)) for p in pts]
        return _merge(out)
    pts = [0, m, bm] + list(e.values)
    for s, t, _ in e.ranges:
        pts += [s, t, (s + t) // 2]
    if b > w:
        pts += [m + 1]
    pts += [1 << k for k in range(0, w, 7)]
    out = [(max(0, p - 2), min(bm, p + 2)) for p in pts]
    return _merge(out)


def _merge(iv):
    iv = sorted(iv)
    out = []
    for lo, hi in iv:
        if out and lo <= out[-1][1] + 1:
            out[-1] = (out[-1][0], max(out[-1][1], hi))
        else:
            out.append((lo, hi))
    return out


def model_class(e, x):
    if x > umax(backing(e.width)):
        return "B"
    c = e.classify(x)
    if c is None:
        return "E"
    return "O:" + camel(c[1])


def model_runs(e, lo, hi):
    """run-length encoded model classes over [lo, hi] without visiting every integer"""
    cuts = {lo, hi + 1}
    m = umax(e.width)
    for v in e.values:
        cuts.update((v, v + 1))
    for s, t, _ in e.ranges:
        cuts.update((s, t + 1))
    cuts.update((m + 1, umax(backing(e.width)) + 1))
    cuts = sorted(c for c in cuts if lo <= c <= hi + 1)
    runs = []
    for a, b in zip(cuts, cuts[1:]):
        c = model_class(e, a)
        if runs and runs[-1][2] == c and runs[-1][1] + 1 == a:
            runs[-1][1] = b - 1
        else:
            runs.append([a, b - 1, c])
    return runs


def expected_default(e, d):
    t = d["tags"][0]
    k = A.tag_kind(t)
    if k == "value":
        return camel(t["id"]), t["value"]
    if k == "range":
        if t.get("tags"):
            return camel(t["tags"][0]["id"]), t["tags"][0]["value"]
        return camel(t["id"]), t["range"]["start"]
    return None


def worker(task):
    rc = rustwl._RC
    d = rc.live[task["di"]]
    m = Model(d["file"])
    cl = rc.client("dev", timeout=60)
    res = {"evals": 0, "nontrivial": set(), "viol": [], "samples": [], "points": 0, "enums": 0,
           "exhaustive_enums": 0, "shapes": {}, "widths": {}}

    def V(sig, case):
        case.update({"desc": d["name"], "profile": d["profile"], "gen_seed": d["gen_seed"], "pdl": d["text"]})
        res["viol"].append(("C15", "C15|rust|" + sig, case))

    for decl in m.file["declarations"]:
        if decl["kind"] != "enum_declaration":
            continue
        e = m.enum(decl["id"])
        res["enums"] += 1
        shape = "%s:%s" % ("open" if e.default else "closed", "ranged" if e.ranges else "plain")
        res["shapes"][shape] = res["shapes"].get(shape, 0) + 1
        res["widths"][str(e.width)] = res["widths"].get(str(e.width), 0) + 1
        if e.width <= 16:
            res["exhaustive_enums"] += 1
        for lo, hi in intervals(e):
            r = cl.call({"d": d["name"], "t": "enum:" + decl["id"], "op": "scan", "lo": lo, "hi": hi})
            res["evals"] += 1
            res["points"] += hi - lo + 1
            case = {"enum": decl["id"], "width": e.width, "interval": [lo, hi]}
            if "runs" not in r:
                V("scan-failed:%s|%s" % (rustwl.norm_msg(str(r.get("panic", {}).get("msg", "crash"))), shape),
                  dict(case, observed=rustwl._short(r)))
                continue
            want = model_runs(e, lo, hi)
            got = [list(x) for x in r["runs"]]
            for run in got:
                res["nontrivial"].add(common.h(d["name"], decl["id"], run[0], run[1], run[2]))
                res["evals"] += 1   # one evaluation = one maximal run of equal outcomes judged against the model
            if got != want:
                # first differing point
                x, gc, wc = first_diff(got, want)
                kind = "accepts-invalid" if (wc in ("E", "B") and gc.startswith("O")) else \
                       "rejects-valid" if (gc in ("E", "B", "E!") and wc.startswith("O")) else \
                       "law-broken:%s" % gc.split(":")[-1] if gc.startswith(wc + ":") else "wrong-variant"
                where = "beyond-width" if x > umax(e.width) else \
                        ("tag" if x in e.values else "range" if any(s <= x <= t for s, t, _ in e.ranges) else "default-or-gap")
                V("%s|%s:%s" % (kind, shape, where), dict(case, x=x, observed=gc, expected=wc))
            elif len(res["samples"]) < 2:
                res["samples"].append({"desc": d["name"], "enum": decl["id"], "width": e.width,
                                       "interval": [lo, hi], "runs": got[:6]})
        # default value
        ed = expected_default(e, decl)
        if ed is not None:
            r = cl.call({"d": d["name"], "t": "enum:" + decl["id"], "op": "default"})
            res["evals"] += 1
            name = (r.get("name") or "").split("(")[0]
            if name != ed[0] or r.get("value") != ed[1]:
                V("wrong-default|%s" % shape, {"enum": decl["id"], "observed": rustwl._short(r), "expected": ed})
        # serde path: integers that are not values must not deserialize (Private<T> guarantee)
        for x in e.some_invalid()[:4] + ([umax(e.width) + 1] if backing(e.width) > e.width else []):
            r = cl.call({"d": d["name"], "t": "enum:" + decl["id"], "op": "deser", "value": x})
            res["evals"] += 1
            if "deser_err" not in r:
                V("deserializes-invalid-integer|%s" % shape, {"enum": decl["id"], "x": x, "observed": rustwl._short(r)})
        for x in e.some_values()[:6]:
            r = cl.call({"d": d["name"], "t": "enum:" + decl["id"], "op": "deser", "value": x})
            res["evals"] += 1
            if r.get("ok") != x:
                V("deserialize-roundtrip|%s" % shape, {"enum": decl["id"], "x": x, "observed": rustwl._short(r)})
    cl.close()
    res["nontrivial"] = sorted(res["nontrivial"])
    return res


def py_model_runs(e, decl, lo, hi):
    """expected from_int classes: member for top-level value tags, the integer itself for range /
    default values, EnumValueError otherwise (scanned below 2^w only: from_int has no width)"""
    top = {t["value"]: t["id"] for t in decl["tags"] if A.tag_kind(t) == "value"}
    cuts = {lo, hi + 1}
    for v in e.values:
        cuts.update((v, v + 1))
    for s_, t_, _ in e.ranges:
        cuts.update((s_, t_ + 1))
    cuts = sorted(c for c in cuts if lo <= c <= hi + 1)
    runs = []
    for a, b in zip(cuts, cuts[1:]):
        if a in top:
            c = "O:" + top[a]
        elif e.valid(a):
            c = "I"
        else:
            c = "X:EnumValueError"
        if runs and runs[-1][2] == c and runs[-1][1] + 1 == a:
            runs[-1][1] = b - 1
        else:
            runs.append([a, b - 1, c])
    return runs


def py_worker(task):
    from . import pywl
    from ..engines.py import PyHarness, PyGenError
    d = pywl._DESCS[task["di"]]
    m = Model(d["file"])
    res = {"evals": 0, "nontrivial": set(), "viol": [], "samples": [], "points": 0, "enums": 0,
           "exhaustive_enums": 0, "shapes": {}, "widths": {}}

    def V(sig, case):
        case.update({"desc": d["name"], "profile": d["profile"], "gen_seed": d["gen_seed"], "pdl": d["text"]})
        res["viol"].append(("C15", "C15|python|" + sig, case))
    h = PyHarness(d["name"], d["file"], d["text"])
    try:
        h.generate()
    except PyGenError:
        return _fin(res)   # C13 / C10 report generation failures
    if h.compile_check() or "types" not in h.call({"op": "types"}):
        h.close()
        return _fin(res)
    for decl in m.file["declarations"]:
        if decl["kind"] != "enum_declaration":
            continue
        e = m.enum(decl["id"])
        res["enums"] += 1
        shape = "%s:%s" % ("open" if e.default else "closed", "ranged" if e.ranges else "plain")
        mx = umax(e.width)
        ivs = [(0, mx)] if e.width <= 16 else [(lo, min(hi, mx)) for lo, hi in intervals(e) if lo <= mx]
        if e.width <= 16:
            res["exhaustive_enums"] += 1
        for lo, hi in ivs:
            r = h.call({"op": "from_int", "t": decl["id"], "lo": lo, "hi": hi}, timeout=60)
            res["evals"] += 1
            res["points"] += hi - lo + 1
            case = {"enum": decl["id"], "width": e.width, "interval": [lo, hi]}
            if "runs" not in r:
                V("scan-failed|%s" % shape, dict(case, observed=rustwl._short(r)))
                continue
            want = py_model_runs(e, decl, lo, hi)
            got = r["runs"]
            for run in got:
                res["nontrivial"].add(common.h("py", d["name"], decl["id"], run[0], run[1], run[2]))
                res["evals"] += 1
            if got != want:
                x, gc, wc = first_diff(got, want)
                kind = "accepts-invalid" if wc.startswith("X") and not gc.startswith("X") else \
                       "rejects-valid" if gc.startswith("X:EnumValueError") and not wc.startswith("X") else \
                       "wrong-exception:%s" % gc.split(":")[-1] if gc.startswith("X") else "wrong-result"
                where = "tag" if x in e.values else "range" if any(s_ <= x <= t_ for s_, t_, _ in e.ranges) else "default-or-gap"
                V("%s|%s:%s" % (kind, shape, where), dict(case, x=x, observed=gc, expected=wc))
    h.close()
    return _fin(res)


def cxx_worker(task):
    """C++ IsValid<Enum>(backing integer) scanned over the same intervals: for a closed enum it must hold
    exactly for declared values and ranges (nothing at or above 2^w); open enums have no generated check."""
    from . import cxxwl
    from ..engines import cxx as CX
    d = cxxwl._DESCS[task["di"]]
    m = Model(d["file"])
    res = {"evals": 0, "nontrivial": set(), "viol": [], "samples": [], "points": 0, "enums": 0,
           "exhaustive_enums": 0, "shapes": {}, "widths": {}}

    def V(sig, case):
        case.update({"desc": d["name"], "profile": d["profile"], "gen_seed": d["gen_seed"], "pdl": d["text"]})
        res["viol"].append(("C15", "C15|cxx|" + sig, case))
    h = CX.CxxHarness("c15_" + d["name"], d["file"], d["text"], exclude=cxxwl.excluded_for_cxx(d["file"]))
    try:
        h.generate()
        h.build({}, "asan")
        have = set(h.enums())
    except CX.CxxError:
        return _fin(res)   # C14 / C10 report generation and compile failures
    for decl in m.file["declarations"]:
        if decl["kind"] != "enum_declaration" or decl["id"] not in have:
            continue
        e = m.enum(decl["id"])
        if e.default:
            continue
        res["enums"] += 1
        shape = "closed:%s" % ("ranged" if e.ranges else "plain")
        if e.width <= 16:
            res["exhaustive_enums"] += 1
        for lo, hi in intervals(e):
            case = {"enum": decl["id"], "width": e.width, "interval": [lo, hi]}
            try:
                got = h.enum_is_valid(decl["id"], lo, hi)
            except CX.CxxError as ex:
                V("scan-failed|%s" % shape, dict(case, observed=str(ex)[-600:]))
                continue
            res["evals"] += 1
            res["points"] += hi - lo + 1
            want = []
            cuts = {lo, hi + 1}
            for v in e.values:
                cuts.update((v, v + 1))
            for s_, t_, _ in e.ranges:
                cuts.update((s_, t_ + 1))
            cuts = sorted(c for c in cuts if lo <= c <= hi + 1)
            for a, b in zip(cuts, cuts[1:]):
                ok = bool(e.valid(a)) and a <= umax(e.width)
                if want and want[-1][2] == ok and want[-1][1] + 1 == a:
                    want[-1][1] = b - 1
                else:
                    want.append([a, b - 1, ok])
            got = [[a, b, bool(c)] for a, b, c in got]
            merged = []
            for a, b, c in got:
                if merged and merged[-1][2] == c and merged[-1][1] + 1 == a:
                    merged[-1][1] = b
                else:
                    merged.append([a, b, c])
            for run in merged:
                res["nontrivial"].add(common.h("cxx", d["name"], decl["id"], run[0], run[1], run[2]))
                res["evals"] += 1
            if merged != want:
                x, gc, wc = first_diff([[a, b, str(c)] for a, b, c in merged], [[a, b, str(c)] for a, b, c in want])
                where = "tag" if x in e.values else "range" if any(s_ <= x <= t_ for s_, t_, _ in e.ranges) else \
                        "above-2^w" if x > umax(e.width) else "gap"
                V("%s|%s:%s" % ("accepts-invalid" if gc == "True" else "rejects-valid", shape, where),
                  dict(case, x=x, observed=gc, expected=wc))
    return _fin(res)


def _fin(res):
    res["nontrivial"] = sorted(res["nontrivial"])
    return res


def first_diff(got, want):
    def cls(runs, x):
        for a, b, c in runs:
            if a <= x <= b:
                return c
        return "?"
    pts = sorted(set([r[0] for r in got] + [r[0] for r in want] + [r[1] for r in got] + [r[1] for r in want]))
    for x in pts:
        g, w = cls(got, x), cls(want, x)
        if g != w:
            return x, g, w
    return pts[0], "?", "?"


def run(tier):
    check = common.Check("C15", tier)
    n = 10 if tier == "thorough" else 2
    rc = rustwl.prepare(check, tier, flavours=("dev",), profiles=["enum", "bitfield", "inherit", "mix", "optional"],
                        n_per_profile=n)
    results = common.pmap(worker, [{"di": i} for i in range(len(rc.live))])
    from . import pywl
    pd = pywl.prepare(check, tier, profiles=["enum", "bitfield", "inherit", "mix", "optional"], n_per_profile=n)
    results += common.pmap(py_worker, [{"di": i} for i in range(len(pd))])
    from . import cxxwl
    cd = cxxwl.prepare(check, tier, profiles=["enum", "bitfield"], n_per_profile=1 if tier == "quick" else 4)
    cd_idx = [i for i, x in enumerate(cd) if A.endianness(x["file"]) == A.LE]   # IsValid does not depend on byte order
    cres = common.pmap(cxx_worker, [{"di": i} for i in cd_idx], nproc=8)
    results += cres
    tot = {"evals": 0, "nontrivial": set(), "samples": [], "points": 0, "enums": 0, "exhaustive_enums": 0,
           "shapes": {}, "widths": {}}
    for r in results:
        tot["evals"] += r["evals"]
        tot["nontrivial"].update(r["nontrivial"])
        tot["points"] += r["points"]
        tot["enums"] += r["enums"]
        tot["exhaustive_enums"] += r["exhaustive_enums"]
        for k in ("shapes", "widths"):
            for a, b in r[k].items():
                tot[k][a] = tot[k].get(a, 0) + b
        if len(tot["samples"]) < 4:
            tot["samples"].extend(r["samples"][:1])
        check.add_violations((s, c) for _, s, c in r["viol"])
    cov = {"evaluations": tot["evals"], "distinct_nontrivial": len(tot["nontrivial"]), "rule": RULE,
           "samples": tot["samples"] or [{"note": "none"}], "integers_probed": tot["points"],
           "enums": tot["enums"], "enums_scanned_exhaustively": tot["exhaustive_enums"],
           "enum_shapes": tot["shapes"], "enum_widths": tot["widths"], "backends": ["rust", "python", "cxx"],
           "cxx_closed_enums_scanned": sum(r["enums"] for r in cres), "cxx_integers_probed": sum(r["points"] for r in cres),
           "exhaustive": False,
           "explanation": "exhaustive over all 2^w integers for every enum with w <= 16; boundary neighbourhoods beyond"}
    return check.finish(cov, assumptions=["model of tags/ranges/default in pv/refmodel.py EnumInfo",
                                          "variant names follow heck's UpperCamelCase of the tag id"],
                        min_evaluations=20)
