"""C12 — parser fidelity: the AST is exactly what was written, with truthful source ranges."""
from __future__ import annotations

import random
import re

from .. import ast as A
from .. import gen, render
from ..engines.driver import Driver
from . import common

RULE = ("generator descriptions (all profiles) rendered with randomized concrete syntax (literal radix, "
        "digit case, 0x/0X, leading zeros, trailing commas, spaces/tabs/CR/LF, line and block comments "
        "between any two tokens, keyword-prefixed identifiers); the parse JSON is compared member by member "
        "with the generator's AST, every loc with the byte span the renderer recorded, line/column recomputed "
        "from the text, comments with the comments written; the AST is printed back and re-parsed; near-miss "
        "texts (one required token deleted / glued / truncated) must be rejected with a diagnostic; "
        "non-trivial = distinct source text with at least one declaration")


def line_col(data, off):
    nl = data.rfind(b"\n", 0, off)
    return data.count(b"\n", 0, off), off - (nl + 1)


def check_loc(loc, span, data, what, errs, exact=True, slack_end=0):
    s, e = loc["start"], loc["end"]
    n = len(data)
    if not (0 <= s["offset"] <= e["offset"] <= n):
        errs.append(("range-outside-file-or-reversed", what, loc))
        return
    for p in (s, e):
        ln, col = line_col(data, p["offset"])
        if (p["line"], p["column"]) != (ln, col):
            errs.append(("line-column-inconsistent", what, {"loc": p, "recomputed": [ln, col]}))
            return
    if span is None:
        return
    a, b = span
    if s["offset"] > a or e["offset"] < b:
        errs.append(("range-does-not-cover-node", what, {"loc": [s["offset"], e["offset"]], "span": [a, b]}))
        return
    if s["offset"] != a or e["offset"] != b:
        # a range may only extend over trivia (whitespace, whole comments) next to the node:
        # pest consumes the implicit WHITESPACE/COMMENT skip before an absent optional tail
        if not is_trivia(data[s["offset"]:a]) or not is_trivia(data[b:e["offset"]]):
            errs.append(("range-extends-beyond-node", what, {"loc": [s["offset"], e["offset"]], "span": [a, b]}))


def is_trivia(b):
    b = bytes(b)
    while True:
        b = b.lstrip(b" \t\r\n")
        if not b:
            return True
        if b.startswith(b"/*"):
            i = b.find(b"*/", 2)
            if i < 0:
                return False
            b = b[i + 2:]
        elif b.startswith(b"//"):
            i = b.find(b"\n")
            if i < 0:
                return True
            b = b[i + 1:]
        else:
            return False


def walk_locs(parsed, em, data, errs):
    spans = em.spans
    check_loc(parsed["endianness"]["loc"], spans.get(("endianness",)), data, "endianness", errs, slack_end=1)
    n = 0
    for i, d in enumerate(parsed["declarations"]):
        p = ("decl", i)
        check_loc(d["loc"], spans.get(p), data, "decl", errs)
        n += 1
        for j, c in enumerate(d.get("constraints", [])):
            check_loc(c["loc"], spans.get(p + ("constraint", j)), data, "constraint", errs)
            n += 1
        for j, t in enumerate(d.get("tags", [])):
            check_loc(t["loc"], spans.get(p + ("tag", j)), data, "tag", errs)
            n += 1
            for k, u in enumerate(t.get("tags", [])):
                check_loc(u["loc"], spans.get(p + ("tag", j, "tag", k)), data, "nested-tag", errs)
                n += 1
        for j, fl in enumerate(d.get("fields", [])):
            check_loc(fl["loc"], spans.get(p + ("field", j)), data, "field", errs)
            n += 1
            if fl.get("cond"):
                check_loc(fl["cond"]["loc"], spans.get(p + ("field", j, "cond")), data, "cond", errs)
                n += 1
            for k, c in enumerate(fl.get("constraints", []) or []):
                check_loc(c["loc"], spans.get(p + ("field", j, "constraint", k)), data, "group-constraint", errs)
                n += 1
    got = sorted((c["loc"]["start"]["offset"], c["loc"]["end"]["offset"]) for c in parsed.get("comments", []))
    want = sorted(em.comments)
    if got != want:
        errs.append(("comments-differ", "comments", {"parsed": got[:6], "written": want[:6]}))
    for c in parsed.get("comments", []):
        check_loc(c["loc"], None, data, "comment", errs)
        if data[c["loc"]["start"]["offset"]:c["loc"]["end"]["offset"]].decode("utf-8", "replace") != c["text"]:
            errs.append(("comment-text-differs", "comments", c))
    return n


def near_misses(text, em, rng, k=6):
    """texts that do not match the grammar: (text, kind)"""
    data = text
    out = []
    toks = [m for m in re.finditer(r"[{}():,=\[\]]", text)]
    # only structural tokens outside comments and strings
    cm = em.comments
    enc = text.encode("utf-8")

    def in_comment(char_idx):
        b = len(text[:char_idx].encode("utf-8"))
        return any(a <= b < e for a, e in cm)
    toks = [m for m in toks if not in_comment(m.start())]
    for _ in range(k):
        if not toks:
            break
        m = rng.choice(toks)
        ch = m.group(0)
        if ch == ",":
            # deleting a comma between two items is an error unless it is a trailing comma
            after = text[m.end():]
            nxt = re.match(r"(\s|/\*.*?\*/|//[^\n]*\n)*(.)", after, re.S)
            if nxt and nxt.group(2) in "})":
                continue
            out.append((text[:m.start()] + " " + text[m.end():], "missing-comma"))
        elif ch in "{(":
            out.append((text[:m.start()] + " " + text[m.end():], "missing-open-" + ("brace" if ch == "{" else "paren")))
        elif ch == ":":
            out.append((text[:m.start()] + " " + text[m.end():], "missing-colon"))
        elif ch == "=":
            out.append((text[:m.start()] + " " + text[m.end():], "missing-equals"))
    out.append((text + "/* unterminated", "unterminated-block-comment"))
    out.append((text + " _ ", "lone-underscore"))
    # keyword glued to the identifier: remove the whitespace char that belongs to the keyword token
    decl_spans = [v for k, v in em.spans.items() if len(k) == 2 and k[0] == "decl"]
    if decl_spans:
        a, b = rng.choice(decl_spans)
        mo = re.match(rb"(packet|struct|enum|group|custom_field|checksum)((?:[ \t\r\n]|/\*.*?\*/|//[^\n]*\n)+)",
                      enc[a:b], re.S)
        if mo:
            out.append(((enc[:a + len(mo.group(1))] + enc[a + mo.end():]).decode("utf-8"), "keyword-glued-to-identifier"))
    mi = [(a, b, v) for a, b, v in em.ints]
    if mi:
        a, b, v = rng.choice(mi)
        out.append((enc[:a].decode() + "0x" + enc[b:].decode(), "hex-prefix-without-digits"))
        out.append((enc[:a].decode() + "0b1" + enc[b:].decode(), "binary-literal"))
    a, b = em.spans[("endianness",)]
    out.append(((enc[:b - 1] + enc[b:]).decode("utf-8"), "bad-endianness-keyword"))
    out.append(((enc[:b] + b"x" + enc[b + 1:]).decode("utf-8"), "endianness-glued"))
    return out


def worker(task):
    seeds, profiles, per = task
    drv = Driver(timeout=30)
    res = {"evals": 0, "nontrivial": set(), "viol": [], "samples": [], "nodes": 0, "ints": 0, "comments": 0,
           "near_miss": {}, "reparsed": 0}

    def V(sig, case):
        res["viol"].append(("C12|parser|" + sig, case))

    for sd in seeds:
        for prof in profiles:
            g = gen.generate(sd, prof)
            for variant in range(per):
                rng = random.Random("%s/%s/%d/c12" % (sd, prof, variant))
                f = g["file"] if variant % 2 == 0 else A.with_endianness(g["file"], A.BE)
                text, em = render.render(f, rng, fancy=True, hex_upper_prefix=True)
                r = drv.request(text, ["parse"])
                res["evals"] += 1
                case = {"profile": prof, "gen_seed": sd, "variant": variant, "text": text}
                p = r.get("parse", {})
                if "ok" not in p:
                    kind = "panic" if "panic" in p else "crash" if ("crash" in r or "timeout" in r) else "rejects-valid"
                    V("%s|%s" % (kind, _classify_reject(p, text)), dict(case, observed=str(p or r)[:1500]))
                    continue
                parsed = p["ok"]
                res["nontrivial"].add(common.h(text))
                got = A.strip_loc(parsed)
                want = A.strip_loc(f)
                if got.get("endianness", {}).get("value") != want["endianness"]["value"]:
                    V("wrong-ast|endianness", dict(case, observed=got.get("endianness")))
                if got["declarations"] != want["declarations"]:
                    V("wrong-ast|%s" % _ast_diff(got["declarations"], want["declarations"]),
                      dict(case, observed_first_diff=_ast_diff(got["declarations"], want["declarations"], True)))
                    continue
                errs = []
                data = text.encode("utf-8")
                res["nodes"] += walk_locs(parsed, em, data, errs)
                res["ints"] += len(em.ints)
                res["comments"] += len(em.comments)
                for kind, what, detail in errs[:3]:
                    V("loc:%s|%s" % (kind, what), dict(case, detail=detail))
                if len(res["samples"]) < 2:
                    res["samples"].append({"profile": prof, "text": text[:400], "declarations": len(f["declarations"]),
                                           "nodes_with_loc_checked": res["nodes"]})
                # print back and parse again
                back, _ = render.render(got)
                r2 = drv.request(back, ["parse"])
                res["evals"] += 1
                p2 = r2.get("parse", {})
                if "ok" not in p2 or A.strip_loc(p2["ok"])["declarations"] != got["declarations"]:
                    V("print-parse-roundtrip-differs|%s" % prof, dict(case, printed=back[:2000], observed=str(p2)[:800]))
                else:
                    res["reparsed"] += 1
                # near misses
                if variant == 0:
                    for bad, kind in near_misses(text, em, rng):
                        if bad == text:
                            continue
                        r3 = drv.request(bad, ["parse"])
                        res["evals"] += 1
                        p3 = r3.get("parse", {})
                        res["near_miss"][kind] = res["near_miss"].get(kind, 0) + 1
                        if "panic" in p3 or "crash" in r3 or "timeout" in r3:
                            V("near-miss-crashes|%s" % kind, {"text": bad, "observed": str(p3 or r3)[:800]})
                        elif "ok" in p3:
                            V("near-miss-accepted|%s" % kind, {"text": bad, "kind": kind})
                        elif "err" in p3 and not p3.get("emit_ok", True):
                            V("near-miss-diagnostic-does-not-render|%s" % kind, {"text": bad})
    drv.close()
    res["nontrivial"] = sorted(res["nontrivial"])
    return res


def _classify_reject(p, text):
    msg = str(p.get("err", {}).get("message", ""))[:300] if isinstance(p, dict) else ""
    if "cannot convert" in msg:
        mm = re.search(r"cannot convert '([^']*)'", msg)
        lit = mm.group(1) if mm else ""
        if lit.lower().startswith("0x"):
            return "hex-literal-%s-prefix" % lit[:2]
        return "integer-literal"
    return "syntax"


def _ast_diff(got, want, detail=False):
    for i, (a, b) in enumerate(zip(got, want)):
        if a != b:
            if detail:
                return {"index": i, "parsed": a, "written": b}
            for k in sorted(set(a) | set(b)):
                if a.get(k) != b.get(k):
                    return "%s.%s" % (b.get("kind", "?"), k)
    return "declaration-count" if not detail else {"parsed_n": len(got), "written_n": len(want)}


DOC_PROBES = [
    # valid per doc/reference.md, each exercising one token-level rule
    ("little_endian_packets\npacket A { x : 8 , _payload_ , }\npacket B : A ( x = 1 , ) { }\n", "trailing-commas"),
    ("big_endian_packets\nenum E : 8 { A = 0X1f , B = 0x2F , C = 007 , }\n", "integer-forms"),
    ("little_endian_packets custom_field URL \"url\" custom_field U2 : 16 \"multi\nline\"\n", "strings"),
    ("little_endian_packets\n// line comment\n/* block\n comment */ packet P { }\n", "comments"),
    ("little_endian_packets\tpacket\tP\t{\ta\t:\t8\t}\r\n", "tabs-and-crlf"),
    ("little_endian_packets\npacket enumx { packet_ : 8, structure : 8 }\n", "keyword-prefixed-identifiers"),
    ("little_endian_packets\npacket P { a : 8 }\ntest P { \"\\x00\", \"\\x01\", }\n", "test-declaration"),
    ("little_endian_packets\ngroup G { a : 8 } packet P { G { a = 1 , } }\n", "group-constraint-trailing-comma"),
    ("little_endian_packets\nchecksum C : 8 \"c\" packet P { _checksum_start_ ( c ) , x : 8 , c : C }\n", "checksum"),
    ("little_endian_packets\npacket P { _payload_ : [ +2 ] , _size_ ( _payload_ ) : 8 }\n", "size-modifier"),
]


def run(tier):
    check = common.Check("C12", tier)
    nseeds = 96 if tier == "thorough" else 12
    per = 6 if tier == "thorough" else 3
    seeds = ["%d.%d" % (check.seed, j) for j in range(nseeds)]
    tasks = [([sd], gen.PROFILES, per) for sd in seeds]
    results = common.pmap(worker, tasks)
    tot = {"evals": 0, "nontrivial": set(), "samples": [], "nodes": 0, "ints": 0, "comments": 0, "near": {}, "reparsed": 0}
    for r in results:
        tot["evals"] += r["evals"]
        tot["nontrivial"].update(r["nontrivial"])
        tot["nodes"] += r["nodes"]
        tot["ints"] += r["ints"]
        tot["comments"] += r["comments"]
        tot["reparsed"] += r["reparsed"]
        for k, v in r["near_miss"].items():
            tot["near"][k] = tot["near"].get(k, 0) + v
        if len(tot["samples"]) < 3:
            tot["samples"].extend(r["samples"][:1])
        check.add_violations(r["viol"])
    drv = Driver()
    for text, kind in DOC_PROBES:
        r = drv.request(text, ["parse"])
        tot["evals"] += 1
        if "ok" not in r.get("parse", {}):
            check.violation("C12|parser|rejects-valid|doc-probe:%s" % kind,
                            {"text": text, "observed": str(r.get("parse"))[:1000]})
    drv.close()
    cov = {"evaluations": tot["evals"], "distinct_nontrivial": len(tot["nontrivial"]), "rule": RULE,
           "samples": tot["samples"] or [{"note": "none"}], "ast_nodes_with_loc_checked": tot["nodes"],
           "integer_literals_written": tot["ints"], "comments_written": tot["comments"],
           "print_parse_roundtrips_ok": tot["reparsed"], "near_miss_texts": tot["near"],
           "doc_probes": len(DOC_PROBES)}
    return check.finish(cov, assumptions=["the renderer's recorded spans are ground truth by construction",
                                          "`loc` may extend over at most adjacent whitespace (the grammar's keyword/endianness tokens include one whitespace character)"],
                        min_evaluations=50)
