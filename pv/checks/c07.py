"""C07 — all backends agree on the wire format (Rust, Python, C++, Java side by side)."""
from __future__ import annotations

import json
import random

from .. import ast as A
from .. import corpus, gen
from ..engines import cxx as CX
from ..engines import java as JV
from ..engines.py import PyGenError, PyHarness, match
from ..refmodel import Model
from ..values import ValueGen
from . import common, cxxwl, javawl, pywl, rustwl

RULE = ("generator descriptions whose constructs at least two backends support (declarations a backend cannot take "
        "are dropped for that backend only), both endiannesses; per type one table of in-range values is serialized "
        "by every backend that has the type, and one set of byte strings (reference encodings, single-fault mutants, "
        "prefixes, random) is parsed by every backend; outcomes are normalized to one JSON shape and compared "
        "pairwise (bytes; acceptance; field values); bytes written by one backend are part of the other backends' "
        "inputs (cross-language round trip); the reference model only generates inputs here; "
        "non-trivial = distinct (description, type, value or bytes) compared by >= 2 backends")

_RC = None
_DESCS = None


def worker(task):
    d = _DESCS[task["di"]]
    m = Model(d["file"])
    rng = random.Random("%s/%s/c07" % (d["gen_seed"], d["profile"]))
    res = {"evals": 0, "nontrivial": set(), "viol": [], "samples": [], "pairs": {}, "types": 0, "backends": {},
           "ser_compared": 0, "parse_compared": 0, "cross": 0}

    def V(sig, case):
        case.update({"desc": d["name"], "profile": d["profile"], "gen_seed": d["gen_seed"],
                     "endianness": A.endianness(d["file"]), "pdl": d["text"]})
        res["viol"].append(("C07", "C07|" + sig, case))

    sup = gen.supported_by(d["features"])
    alltypes = [t for t in rustwl.types_of(m.file) if m.dm[t]["kind"] != "custom_field_declaration"]
    have = {}
    # rust
    rust_ok = "rust" in sup and _RC is not None and any(x["name"] == d["name"] for x in _RC.live)
    if rust_ok:
        have["rust"] = set(alltypes)
    # python
    py = None
    if "python" in sup:
        py = PyHarness("c07_" + d["name"], d["file"], d["text"])
        try:
            py.generate()
            if py.compile_check() is None and "types" in py.call({"op": "types"}):
                have["python"] = set(alltypes)
            else:
                py.close()
                py = None
        except PyGenError:
            py = None
    # c++
    cx = None
    if "cxx" in sup:
        excl = cxxwl.excluded_for_cxx(d["file"])
        cx = CX.CxxHarness("c07_" + d["name"], d["file"], d["text"], exclude=excl)
        try:
            cx.generate()
            have["cxx"] = set(t for t in cx.types() if t in alltypes)
        except CX.CxxError:
            cx = None
    # java
    jv = None
    jexcl = JV.auto_exclude(d["file"])
    jtypes = set(t for t in alltypes if t not in jexcl)
    if jtypes:
        jv = JV.JavaHarness("c07_" + d["name"], d["file"], d["text"], exclude=jexcl)
        have["java"] = jtypes
    types = [t for t in alltypes if sum(1 for b in have if t in have[b]) >= 2]
    if not types:
        for h in (py, jv):
            if h:
                h.close()
        return _fin(res)
    values, encs = {}, {}
    for tid in types:
        vg = ValueGen(m, rng, max_array=16, max_payload=20)
        vals = vg.valid_values(tid, task["nv"])
        values[tid] = [v for v, _ in vals]
        encs[tid] = vals
    try:
        if cx:
            try:
                cx.build({t: values[t] for t in types if t in have["cxx"]}, "asan")
            except CX.CxxError:
                cx = None
                have.pop("cxx", None)
        if jv:
            try:
                jv.generate()
                jv.build({t: values[t] for t in types if t in have["java"]})
            except JV.JavaError:
                jv = None
                have.pop("java", None)
        rcl = _RC.client("dev") if rust_ok else None
        # ---------------- serialize side
        ser = {b: {} for b in have}
        if cx:
            for e in cx.serialize_all("asan"):
                if "hex" in e:
                    ser["cxx"][(e["type"], e["i"])] = e["hex"]
        if jv:
            for e in jv.serialize_all():
                if "hex" in e:
                    ser["java"][(e["type"], e["i"])] = e["hex"]
        for tid in types:
            res["types"] += 1
            for i, v in enumerate(values[tid]):
                if rcl and tid in have.get("rust", ()):
                    r = rcl.call({"d": d["name"], "t": tid, "op": "enc", "value": v, "cap": rustwl.CAP})
                    if "ok" in r.get("to_vec", {}):
                        ser["rust"][(tid, i)] = r["to_vec"]["ok"]
                if py and tid in have.get("python", ()):
                    r = py.call({"op": "serialize", "t": tid, "value": v})
                    if "ok" in r:
                        ser["python"][(tid, i)] = r["ok"]
                got = {b: ser[b][(tid, i)] for b in ser if (tid, i) in ser[b]}
                res["evals"] += len(got)
                if len(got) >= 2 and cxxwl.empty_elementsize_array(m, tid, v):
                    res["abstain_empty_elementsize"] = res.get("abstain_empty_elementsize", 0) + 1
                elif len(got) >= 2:
                    res["ser_compared"] += 1
                    res["nontrivial"].add(common.h(d["name"], tid, "v", i))
                    names = sorted(got)
                    for a in range(len(names)):
                        for b in range(a + 1, len(names)):
                            res["pairs"]["%s-%s" % (names[a], names[b])] = res["pairs"].get("%s-%s" % (names[a], names[b]), 0) + 1
                    judge(m, tid, {b: got[b] for b in names}, lambda p, q: p == q, "ser", "serialize-differs", V,
                          dict({"type": tid, "value": v}, **got))
                    if len(res["samples"]) < 1:
                        res["samples"].append({"desc": d["name"], "type": tid, "value": v, "bytes_by_backend": got})
        # ---------------- parse side (incl. bytes written by every backend)
        for tid in types:
            ins = rustwl.inputs_for(m, tid, encs[tid], random.Random("%s/%s/c07in" % (d["gen_seed"], tid)), task["nb"])
            seen = {b for b, _ in ins}
            for b_ in ser:
                for (t2, i), hx in ser[b_].items():
                    if t2 == tid and bytes.fromhex(hx) not in seen:
                        ins.append((bytes.fromhex(hx), "written-by-" + b_))
                        seen.add(bytes.fromhex(hx))
                        res["cross"] += 1
            is_struct = m.dm[tid]["kind"] == "struct_declaration"
            root = m.chain(m.dm[tid])[0]["id"] == tid
            outs = {}
            blist = [b for b, _ in ins]
            if rcl and tid in have.get("rust", ()):
                o = []
                for b in blist:
                    r = rcl.call({"d": d["name"], "t": tid, "op": "dec", "hex": b.hex(), "cap": rustwl.CAP})
                    k = "decode" if is_struct else "decode_full"
                    o.append(("ok", r[k]["ok"]) if "ok" in r.get(k, {}) else ("rej", None) if "err" in r.get(k, {}) else ("crash", None))
                outs["rust"] = o
            if py and tid in have.get("python", ()) and root and not is_struct:
                o = []
                for b in blist:
                    r = py.call({"op": "parse", "t": tid, "hex": b.hex()})
                    o.append(("ok", _own(r["ok"], r.get("class"), tid)) if "ok" in r else ("rej", None) if "exc" in r else ("crash", None))
                outs["python"] = o
            if cx and tid in have.get("cxx", ()):
                o = []
                for r in cx.parse(tid, blist, "asan"):
                    o.append(("crash", None) if "crash" in r else ("ok", r.get("value")) if r.get("valid") else ("rej", None))
                outs["cxx"] = o
            intermediate = bool(m.dm[tid].get("parent_id")) and A.get_payload(m.dm[tid]) is not None
            if jv and tid in have.get("java", ()) and not is_struct and not intermediate:
                # (an intermediate child is an abstract Java class: its static fromBytes is the root's, there
                # is no parser *of that type* to compare with)
                o = []
                for r in jv.parse(tid, blist):
                    o.append(("crash", None) if (r.get("timeout") or r.get("crash")) else
                             ("ok", _own(r.get("ok"), r.get("class"), tid)) if "ok" in r else ("rej", None))
                outs["java"] = o
            names = sorted(outs)
            if len(names) < 2:
                continue
            for k, (b, tag) in enumerate(ins):
                res["evals"] += len(names)
                res["parse_compared"] += 1
                res["nontrivial"].add(common.h(d["name"], tid, b.hex()))
                live = {x: outs[x][k] for x in names if outs[x][k][0] != "crash"}  # crashes: C01/C13/C14/C19
                if live.get("java", ("", None))[0] == "rej" and A.children_of(m.file, tid):
                    # Java has no parent object: bytes the others accept as the *parent* are an exception
                    # there when a child's constraints match and its payload does not parse (see C19)
                    try:
                        e_ = rustwl.expectation(m, tid, b)
                        if e_[0] == "ok" and ("err",) in m.specialize(tid, e_[1])[0]:
                            live.pop("java")
                    except Exception:
                        pass
                if len(live) < 2:
                    continue
                acc = {x: o[0] for x, o in live.items()}
                def acc_hint(b=b):
                    e = rustwl.expectation(m, tid, b) if not is_struct else cxxwl.struct_expectation(m, tid, b)
                    return {"ok": "ok", "fault": "rej"}.get(e[0])
                dis = judge(m, tid, acc, lambda p, q: p == q, "parse", "acceptance-differs", V,
                            dict({"type": tid, "hex": b.hex(), "input_class": tag}, **acc), hint=acc_hint)
                if not dis and all(o[0] == "ok" for o in live.values()):
                    # nested struct fields whose type has children come back as the parent value (Rust) or as
                    # the most specialized child object (Python, Java): their `payload` is not comparable
                    live = {x: (o[0], pywl._relax_nested(m, tid, o[1])) for x, o in live.items()}
                    judge(m, tid, {x: o[1] for x, o in live.items()}, same_values, "parse", "values-differ", V,
                          dict({"type": tid, "hex": b.hex(), "input_class": tag}, **{x: o[1] for x, o in live.items()}))
        if rcl:
            rcl.close()
    finally:
        for h in (py, jv):
            if h:
                try:
                    h.close()
                except Exception:
                    pass
    res["backends"] = {b: len(t) for b, t in have.items()}
    return _fin(res)


def judge(m, tid, vals, eq, op, kind, V, case, hint=None):
    """vals: backend -> outcome for one (type, value) or (type, bytes). Backends that have a recorded root
    cause on this type (known defects of the C++ / Java / Python generators, named by ctx()) are tainted:
    if the untainted backends agree among themselves and only tainted ones differ from them, the event is
    keyed on each dissenting backend's root cause - one key per cause, whatever the kind of difference and
    whoever else dissents. Any disagreement among untainted backends, or a dissenter without a recorded
    cause, keeps the precise key (kind, who, constructs)."""
    dis = disagreements(vals, eq)
    if not dis:
        return False
    names = sorted(vals)
    taint = {}
    for b in names:
        c = ctx(m, tid, b, op)
        if c.split(":")[0] == b:
            taint[b] = c
    clean = [b for b in names if b not in taint]
    ref = None
    if clean and not disagreements({b: vals[b] for b in clean}, eq):
        ref = vals[clean[0]]
    elif not clean:
        # everybody has a recorded cause here: the reference model's outcome (if it has one) only decides
        # whom the event is attributed to - it never creates one
        h = hint() if hint else None
        if h is not None:
            ref = h
        else:
            for b in names:
                V("%s-deviates|%s" % (b, taint[b]), dict(case, difference=kind))
            return True
    if ref is not None:
        dissent = [b for b in names if b in taint and not eq(ref, vals[b])]
        if dissent:
            for b in dissent:
                V("%s-deviates|%s" % (b, taint[b]), dict(case, difference=kind))
            return True
    for who, others in dis:
        V("%s:%s" % (kind, reattribute(m, tid, who, others, op) or attribute(who, ctx(m, tid, who, op))), case)
    return True


def _own(v, cls, tid):
    """Python and Java answer with the most specialized class they can; such an object's `payload` is the
    descendant's own, not the payload of the type that was asked for: not comparable"""
    if isinstance(v, dict) and cls and cls != tid and cls != "Unknown" + tid and "payload" in v:
        return {k: x for k, x in v.items() if k != "payload"}
    return v


def same_values(a, b):
    """equality on the members both renderings have (Python objects carry inherited members, a more
    specialized class drops `payload`)"""
    if isinstance(a, dict) and isinstance(b, dict):
        keys = set(a) & set(b)
        if "payload" in keys and (len(a) != len(b)):
            keys.discard("payload")
        return all(same_values(a[k], b[k]) for k in keys)
    if isinstance(a, list) and isinstance(b, list):
        return len(a) == len(b) and all(same_values(x, y) for x, y in zip(a, b))
    return a == b


def disagreements(vals, eq):
    """vals: backend -> outcome. -> [(label, others)]: 'X-deviates' when exactly one backend differs
    from all the others (which agree among themselves), else one 'X-vs-Y' entry per differing pair."""
    names = sorted(vals)
    classes = []
    for n in names:
        for c in classes:
            if eq(vals[c[0]], vals[n]):
                c.append(n)
                break
        else:
            classes.append([n])
    if len(classes) <= 1:
        return []
    if len(classes) == 2 and len(names) >= 3:
        small = min(classes, key=len)
        if len(small) == 1:
            return [("%s-deviates" % small[0], [n for n in names if n != small[0]])]
    out = []
    for i in range(len(classes)):
        for j in range(i + 1, len(classes)):
            out.append(("%s-vs-%s" % (classes[i][0], classes[j][0]), []))
    return out


def reattribute(m, tid, who, others, op):
    """when the lone dissenter has no recorded root cause on this type but every backend of the
    'majority' has one, the majority is what deviates"""
    if not who.endswith("-deviates") or not others:
        return None
    me = who[:-len("-deviates")]
    if ":" in ctx(m, tid, me, op).split(",")[0] and ctx(m, tid, me, op).split(":")[0] == me:
        return None
    cs = []
    for o in others:
        c = ctx(m, tid, o, op)
        if c.split(":")[0] != o:
            return None
        cs.append(c)
    return "%s-deviate|%s" % ("+".join(sorted(others)), "+".join(cs))


def attribute(who, c):
    """'X-vs-Y|java:...' -> 'java-deviates|java:...': with only two backends on a type the side whose
    recorded root cause applies is named"""
    if "-vs-" in who and ":" in c and c.split(":")[0] in who.split("-vs-"):
        who = c.split(":")[0] + "-deviates"
    return "%s|%s" % (who, c)


def ctx(m, tid, who, op):
    """construct context of a disagreement, keyed on the recorded root causes of the C++ / Java /
    Python backends when the deviating side is one of them"""
    if "java" in who:
        hz = javawl.hazard(m, tid)
        if hz != "plain":
            return "java:" + hz
    if "cxx" in who:
        if op == "ser":
            bc = cxxwl.builder_context(m, tid)
            if bc:
                return "cxx:" + bc
        else:
            cons = rustwl.type_constructs(m, tid)
            if any(c.startswith("array:enum") or c.startswith("array:struct") for c in cons):
                return "cxx:array-elements-not-validated"
            if m.dm[tid].get("parent_id"):
                return "cxx:child-view-ignores-constraints"
            if any(c.endswith(":padded") for c in cons):
                return "cxx:padded-array"
    if "rust" in who and rustwl.greedy_struct_field_not_last(m, tid):
        return "rust:derived-struct-with-unsized-root-payload-as-field"
    if "python" in who and rustwl.struct_tree_field(m, tid):
        return "python:derived-struct-as-field-type"
    if "python" in who and op == "parse":
        if any(":modifier" in c for c in rustwl.type_constructs(m, tid)):
            return "python:size-modifier-underflow"
    return ",".join(rustwl.type_constructs(m, tid))[:80] or "bitfields-only"


def _fin(res):
    res["nontrivial"] = sorted(res["nontrivial"])
    return res


def run(tier):
    global _RC, _DESCS
    check = common.Check("C07", tier)
    n = 6 if tier == "thorough" else 1
    nv = 24 if tier == "thorough" else 8
    nb = 200 if tier == "thorough" else 60
    profiles = ["bitfield", "array", "payload", "inherit", "enum", "groups", "small", "structs", "mix", "matrix"]
    ds = corpus.descriptions(check.seed, n, profiles, shuffle=False)
    from ..engines.rs import RustCorpus
    import copy
    rc = RustCorpus("c07-s%d-%s" % (check.seed, tier),
                    copy.deepcopy([d for d in ds if "rust" in gen.supported_by(d["features"])]))
    rc.generate()
    rc.build("dev")
    _RC = rc
    _DESCS = ds
    results = common.pmap(worker, [{"di": i, "nv": nv, "nb": nb} for i in range(len(ds))], nproc=8)
    tot = {"evals": 0, "nontrivial": set(), "samples": [], "pairs": {}, "types": 0, "ser": 0, "parse": 0, "cross": 0,
           "backends": {}}
    for r in results:
        tot["evals"] += r["evals"]
        tot["nontrivial"].update(r["nontrivial"])
        tot["types"] += r["types"]
        tot["ser"] += r["ser_compared"]
        tot["parse"] += r["parse_compared"]
        tot["cross"] += r["cross"]
        for k, v in r["pairs"].items():
            tot["pairs"][k] = tot["pairs"].get(k, 0) + v
        for k, v in r.get("backends", {}).items():
            tot["backends"][k] = tot["backends"].get(k, 0) + v
        if len(tot["samples"]) < 3:
            tot["samples"].extend(r["samples"][:1])
        check.add_violations((s, c) for _, s, c in r["viol"])
    cov = {"evaluations": tot["evals"], "distinct_nontrivial": len(tot["nontrivial"]), "rule": RULE,
           "samples": tot["samples"] or [{"note": "none"}], "descriptions": len(ds), "types_compared": tot["types"],
           "values_serialized_by_two_or_more_backends": tot["ser"], "byte_strings_parsed_by_two_or_more_backends": tot["parse"],
           "serialize_pairs_compared": tot["pairs"], "cross_language_inputs": tot["cross"],
           "types_available_per_backend": tot["backends"]}
    return check.finish(cov, assumptions=["pairwise equality is the oracle; the reference model only generates inputs",
                                          "C++ builders mask out-of-range scalars: only in-range values are compared",
                                          "declarations a backend cannot compile are compared among the remaining backends (C10 reports them)"],
                        min_evaluations=100)
