"""C11 — compilation is a deterministic pure function of the source, on every front end."""
from __future__ import annotations

import hashlib
import json
import os
import random
import re
import shutil
import subprocess
import tempfile

from .. import ast as A
from .. import corpus, gen, render
from ..engines import build
from ..engines.driver import Driver, analyze_ok
from ..engines.rs import RustCorpus
from ..refmodel import Model
from ..values import ValueGen
from . import common, rustwl

RULE = ("accepted generator descriptions (emphasis: many children, multi-field constraint tuples): (a) pdlc run in "
        "8 separate processes per backend (json, rust, python, cxx, java) with perturbed environment (cwd, HOME, TZ, "
        "LANG, extra variables, argv order of options) must print byte-identical output; (b) 16 in-process "
        "generate() calls must return identical text; (c) the module produced by #[pdl_inline] and the CLI-generated "
        "module are compiled into two harnesses and must answer every enc/dec operation identically; (d) "
        "--exclude-declaration of an unreferenced root leaf must leave every other generated item unchanged; "
        "(e, evidence only) strace of pdlc: files opened and absence of network syscalls; non-trivial = distinct "
        "(description, backend) pair compared across processes, plus distinct derive-vs-CLI operations")

FORMATS = ["json", "rust", "python", "cxx", "java"]


def run_pdlc(path, fmt, variant, workdir):
    env = {"PATH": os.environ.get("PATH", "/usr/bin:/bin")}
    cwd = workdir
    extra = []
    r = random.Random(variant)
    if variant % 2:
        env["HOME"] = "/nonexistent-%d" % variant
        env["TZ"] = r.choice(["UTC", "Asia/Tokyo", "America/Los_Angeles"])
        env["LANG"] = r.choice(["C", "en_US.UTF-8", "tr_TR.UTF-8"])
        env["LC_ALL"] = env["LANG"]
    if variant % 3 == 0:
        env["RUST_BACKTRACE"] = "1"
        env["PDL_NOISE_%d" % variant] = "x" * r.randint(1, 2000)
        cwd = "/"
    args = ["--output-format", fmt]
    outdir = None
    if fmt == "java":
        outdir = tempfile.mkdtemp(prefix="java-", dir=workdir)
        args += ["--output-dir", outdir, "--java-package", "pkg.sub"]
    p = subprocess.run([build.pdlc()] + args + [path], stdout=subprocess.PIPE, stderr=subprocess.PIPE, env=env,
                       cwd=cwd, timeout=120)
    out = p.stdout
    if fmt == "java" and outdir:
        h = hashlib.sha256()
        for root, dirs, files in sorted(os.walk(outdir)):
            dirs.sort()
            for fn in sorted(files):
                fp = os.path.join(root, fn)
                h.update(os.path.relpath(fp, outdir).encode())
                h.update(open(fp, "rb").read())
        out = out + h.hexdigest().encode()
        shutil.rmtree(outdir, ignore_errors=True)
    return p.returncode, out, p.stderr.decode("utf-8", "replace")


def proc_worker(task):
    sd, profiles, nproc = task
    res = {"evals": 0, "nontrivial": set(), "viol": [], "samples": [], "pairs": 0, "inproc": 0, "exclude": 0}
    workdir = os.path.join(build.WORK, "c11", "%d" % os.getpid())
    os.makedirs(workdir, exist_ok=True)
    drv = Driver(timeout=120)

    def V(sig, case):
        res["viol"].append(("C11|" + sig, case))

    for prof in profiles:
        g = gen.generate(sd, prof)
        sup = gen.supported_by(g["features"])
        text, _ = render.render(g["file"])
        path = os.path.join(workdir, "in-%s.pdl" % prof)
        open(path, "w").write(text)
        fmts = [f for f in FORMATS if f == "json" or f in sup or (f == "cxx" and "cxx" in sup)]
        for fmt in fmts:
            outs = []
            for v in range(nproc):
                rc, out, err = run_pdlc(path, fmt, v, workdir)
                res["evals"] += 1
                outs.append((rc, out))
            res["pairs"] += 1
            res["nontrivial"].add(common.h(sd, prof, fmt))
            if any(o != outs[0] for o in outs):
                k = next(i for i, o in enumerate(outs) if o != outs[0])
                V("cli|output-differs-across-processes|%s" % fmt,
                  {"profile": prof, "gen_seed": sd, "text": text, "first": outs[0][1][:2000].decode("utf-8", "replace"),
                   "variant": k, "other": outs[k][1][:2000].decode("utf-8", "replace")})
            elif outs[0][0] != 0 and fmt != "java":
                res["notes_failed"] = res.get("notes_failed", 0) + 1
        # (b) in-process repetition
        for b in ("gen:rust", "gen:python", "gen:cxx", "gen:java"):
            if b.split(":")[1] not in sup:
                continue
            r = drv.request(text, ["analyze", b], repeat=16, java_dir=os.path.join(workdir, "jd"), java_package="pkg")
            res["evals"] += 16
            res["inproc"] += 1
            g_ = r.get(b, {})
            if g_.get("all_same") is False:
                V("library|in-process-generation-differs|%s" % b, {"profile": prof, "gen_seed": sd, "text": text})
        # (d) exclude a root leaf
        f = g["file"]
        dm = A.decl_map(f)
        refd = set()
        for d in f["declarations"]:
            if d.get("parent_id"):
                refd.add(d["parent_id"])
            for fl in d.get("fields", []):
                for k in ("type_id", "enum_id", "group_id"):
                    if fl.get(k):
                        refd.add(fl[k])
        leaves = [d["id"] for d in f["declarations"] if d["id"] not in refd and not d.get("parent_id")
                  and d["kind"] in ("packet_declaration", "struct_declaration", "enum_declaration")]
        rng = random.Random("%s/%s/c11" % (sd, prof))
        for x in rng.sample(leaves, min(2, len(leaves))):
            for b in ("gen:rust", "gen:python", "gen:cxx"):
                if b.split(":")[1] not in sup:
                    continue
                full = drv.request(text, ["analyze", b]).get(b, {})
                part = drv.request(text, ["analyze", b], exclude=[x]).get(b, {})
                res["evals"] += 2
                res["exclude"] += 1
                if "ok" not in full or "ok" not in part:
                    continue
                cf, cp = items(full["ok"]), items(part["ok"])
                from collections import Counter
                a, c = Counter(cf), Counter(cp)
                added = list((c - a).elements())
                removed = list((a - c).elements())
                # derived names (XView, XBuilder, XChild) count as mentions of X
                bad_removed = [t for t in removed if not re.search(r"(?<![A-Za-z0-9_])%s(?![0-9])" % re.escape(x), t)]
                if added or bad_removed:
                    V("cli|exclude-declaration-changes-unrelated-code|%s" % b,
                      {"profile": prof, "gen_seed": sd, "text": text, "excluded": x,
                       "added": added[:2], "removed_without_mention": bad_removed[:2]})
    drv.close()
    shutil.rmtree(workdir, ignore_errors=True)
    res["nontrivial"] = sorted(res["nontrivial"])
    return res


def items(text):
    """column-0 delimited items, attributes / decorators / comments glued to the item they precede"""
    out = []
    cur = []
    pending = []
    for line in text.split("\n"):
        top = bool(line) and not line[0].isspace() and line[0] not in "})]"
        if top:
            if line.startswith(("#[", "///", "@")):
                pending.append(line)
                continue
            if cur:
                out.append("\n".join(cur).rstrip())
            cur = pending + [line]
            pending = []
        else:
            cur.append(line) if cur else pending.append(line)
    if cur or pending:
        out.append("\n".join(cur + pending).rstrip())
    return [c for c in out if c.strip()]


_PAIR = None


def derive_worker(task):
    """same operations on the CLI-built and the derive-built harness; answers must be equal"""
    a, b = _PAIR
    di, nv, nb = task
    d = a.live[di]
    m = Model(d["file"])
    rng = random.Random("%s/%s/derive" % (d["gen_seed"], d["profile"]))
    ca, cb = a.client("dev"), b.client("dev")
    res = {"evals": 0, "nontrivial": set(), "viol": [], "samples": []}

    def norm(r):
        if isinstance(r, dict):
            return {k: norm(v) for k, v in r.items()
                    if k not in ("ns", "alloc_peak", "alloc_largest", "elapsed", "id", "loc")}
        if isinstance(r, list):
            return [norm(x) for x in r]
        return r
    for tid in rustwl.types_of(m.file):
        vg = ValueGen(m, rng)
        vals = vg.valid_values(tid, nv)
        reqs = [{"op": "enc", "value": v} for v, _ in vals]
        for bts, tag in rustwl.inputs_for(m, tid, vals, rng, nb):
            reqs.append({"op": "dec", "hex": bts.hex()})
        for q in reqs:
            q = dict(q, d=d["name"], t=tid, cap=rustwl.CAP)
            ra, rb = norm(ca.call(q)), norm(cb.call(q))
            res["evals"] += 2
            res["nontrivial"].add(common.h(d["name"], tid, json.dumps(q, sort_keys=True)[:3000]))
            if ra != rb:
                res["viol"].append(("C11|derive|behaviour-differs-from-cli|%s" % q["op"],
                                    {"desc": d["name"], "type": tid, "request": q, "cli": ra, "derive": rb, "pdl": d["text"]}))
        if len(res["samples"]) < 1 and reqs:
            res["samples"].append({"desc": d["name"], "type": tid, "operations_compared": len(reqs)})
    ca.close()
    cb.close()
    res["nontrivial"] = sorted(res["nontrivial"])
    return res


def strace_probe(check):
    """evidence only: which files pdlc opens, and that it makes no network syscalls"""
    g = gen.generate("%d.0" % check.seed, "inherit")
    text, _ = render.render(g["file"])
    wd = os.path.join(build.WORK, "c11-strace")
    os.makedirs(wd, exist_ok=True)
    path = os.path.join(wd, "in.pdl")
    open(path, "w").write(text)
    log = os.path.join(wd, "trace.txt")
    try:
        subprocess.run(["strace", "-f", "-e", "trace=%file,%network", "-o", log, build.pdlc(), "--output-format", "rust", path],
                       stdout=subprocess.DEVNULL, stderr=subprocess.DEVNULL, timeout=120)
        lines = open(log).read().split("\n")
    except Exception as e:
        return {"strace": "unavailable: %s" % e}
    opened = set()
    net = 0
    for ln in lines:
        mm = re.search(r'open(?:at)?\([^"]*"([^"]+)"', ln)
        if mm and "ENOENT" not in ln:
            opened.add(mm.group(1))
        if re.search(r"\b(socket|connect|sendto|recvfrom|bind)\(", ln):
            net += 1
    shutil.rmtree(wd, ignore_errors=True)
    other = sorted(p for p in opened if p != path and not p.startswith(("/lib", "/usr/lib", "/etc/ld.so", "/proc/", "/sys/", "/dev/")))
    return {"strace_files_opened": len(opened), "strace_network_syscalls": net, "strace_files_outside_loader_paths": other[:10]}


def run(tier):
    global _PAIR
    check = common.Check("C11", tier)
    build.pdlc()
    nseeds = 12 if tier == "thorough" else 2
    nproc = 8
    profiles = ["inherit", "mix", "structs", "enum", "groups", "array", "optional"]
    tasks = [("%d.%d" % (check.seed, j), [p], nproc) for j in range(nseeds) for p in profiles]
    results = common.pmap(proc_worker, tasks)
    # (c) derive vs CLI
    n = 3 if tier == "thorough" else 1
    descs = corpus.descriptions(check.seed, n, profiles=["inherit", "optional", "array", "enum", "bitfield", "payload"])
    descs = [d for i, d in enumerate(descs) if i % 2 == 0]  # little-endian members only (halves the build)
    import copy
    a = RustCorpus("c11-cli-s%d-%s" % (check.seed, tier), copy.deepcopy(descs))
    b = RustCorpus("c11-derive-s%d-%s" % (check.seed, tier), copy.deepcopy(descs), derive=True)
    for c in (a, b):
        c.generate()
        c.build("dev")
    names = [d["name"] for d in a.live if d["name"] in {x["name"] for x in b.live}]
    a.live = [d for d in a.live if d["name"] in names]
    b.live = [d for d in b.live if d["name"] in names]
    _PAIR = (a, b)
    p = rustwl.tier_params(tier)
    dres = common.pmap(derive_worker, [(i, max(6, p["nv"] // 2), max(40, p["nb"] // 3)) for i in range(len(a.live))])
    tot = {"evals": 0, "nontrivial": set(), "samples": []}
    agg = {"pairs": 0, "inproc": 0, "exclude": 0}
    for r in results + dres:
        tot["evals"] += r["evals"]
        tot["nontrivial"].update(r["nontrivial"])
        for k in agg:
            agg[k] += r.get(k, 0)
        if len(tot["samples"]) < 3:
            tot["samples"].extend(r["samples"][:1])
        check.add_violations(r["viol"])
    dropped = {**a.dropped, **b.dropped}
    for name, why in b.dropped.items():
        if name not in a.dropped:
            check.violation("C11|derive|module-does-not-build-but-cli-output-does", {"desc": name, "why": str(why)[:1500]})
    cov = {"evaluations": tot["evals"], "distinct_nontrivial": len(tot["nontrivial"]), "rule": RULE,
           "samples": tot["samples"] or [{"note": "cross-process comparisons only"}],
           "description_backend_pairs_across_processes": agg["pairs"], "processes_per_pair": nproc,
           "in_process_repetitions": agg["inproc"] * 16, "exclude_declaration_comparisons": agg["exclude"],
           "derive_vs_cli_descriptions": len(a.live),
           "derive_vs_cli_operations": sum(r["evals"] // 2 for r in dres)}
    cov.update(strace_probe(check))
    return check.finish(cov, assumptions=["determinism across processes is statistical: 8 processes (distinct RandomState keys) per description and backend",
                                          "generated items are compared as column-0 delimited chunks"],
                        min_evaluations=50)
