"""C13 — Python backend: conformance, round trip, and only DecodeError on bad input."""
from __future__ import annotations

from . import common, pywl, rustwl
from .rust_checks import _selfcheck

RULE = ("Python-supported generator descriptions (no element-size fields) in BOTH endiannesses: every generated "
        "in-range value is built from JSON, serialized (bytes vs the reference encoding, size property vs length for "
        "root types) and re-parsed through the root parser; every root type is fed reference encodings, all prefixes, "
        "appended bytes, field-targeted mutants, bit flips and random strings, and the outcome (field values, or the "
        "class of the exception taken from its MRO) is compared with the reference decoder; a watchdog bounds every "
        "call; non-trivial = distinct (description, type, bytes)")


def run(tier):
    check = common.Check("C13", tier)
    trusted = _selfcheck(check)
    p = pywl.tier_params(tier)
    descs = pywl.prepare(check, tier)
    results = common.pmap(pywl.worker, [{"di": i, "nv": p["nv"], "nb": p["nb"], "props": ["C13"]}
                                        for i in range(len(descs))])
    tot = rustwl.merge(check, results, "C13")
    exc = {}
    for r in results:
        for k, v in r.get("exc", {}).items():
            exc[k] = exc.get(k, 0) + v
    cov = {"evaluations": tot["evals"], "distinct_nontrivial": len(tot["nontrivial"]), "rule": RULE,
           "samples": tot["samples"][:4] or [{"note": "none"}], "descriptions": len(descs),
           "big_endian_descriptions": sum(1 for d in descs if d["file"]["endianness"]["value"] == "big_endian"),
           "types_exercised": tot["types"], "ops": tot["ops"], "accepted_inputs": tot["accepted"],
           "rejected_inputs": tot["rejected"], "exception_classes_observed": exc, "input_classes": tot["classes"],
           "oracle_abstentions": tot["abstain"], "constructs": tot["constructs"],
           "roundtrips_returning_other_class": sum(r.get("child_class_differs", 0) for r in results),
           "trusted_base": [trusted]}
    return check.finish(cov, assumptions=["reference model (pv/refmodel.py), re-validated against the canonical vectors",
                                          "sized custom fields are served by a generated custom_types module (modelled on tests/custom_types.py)"],
                        min_evaluations=100)
