"""C01-C06, C17, C18: checks over the generated-Rust harness."""
from __future__ import annotations

import json

from .. import ast as A
from ..refmodel import swap_endianness, Seg
from . import common, rustwl

RULES = {
    "C01": "byte strings per type: reference encodings, every prefix, appended bytes, each size/count/"
           "element-size/flag/enum/fixed/scalar field forced to 0,1,max-1,max,2^k, bit flips, random; "
           "non-trivial = distinct (description,type,input) that is non-empty or got past the first "
           "length guard; executed in a dev build (overflow checks) and a release build under panic, "
           "allocation, crash and watchdog monitors; plus specialize / child conversions on every "
           "parent value obtained",
    "C02": "boundary-biased in-range values per type (model-validated); non-trivial = distinct "
           "(description,type,encoding) with some non-zero field; encode_to_vec then decode_full, "
           "compared by PartialEq in-process and by JSON; child encodings decoded as root ancestor "
           "and specialized down the chain",
    "C03": "same values as C02, hex of encode_to_vec compared with the reference model's encoding; "
           "exhaustive over all values for `small` types (<=16 variable bits); non-trivial = distinct "
           "(description,type,encoding) with some non-zero field",
    "C04": "same byte strings as C01 plus all strings of length <=2 for `small` descriptions; "
           "acceptance, field values, canonical re-encoding and (for singleton fault sets) the "
           "DecodeError variant compared with the reference decoder; non-trivial = distinct "
           "(description,type,input) not rejected by the first length guard",
    "C05": "valid values plus single-mutation out-of-range values (scalar max+1 / backing max in "
           "plain, optional and array-element position, arrays/payloads one past what the size/"
           "count/padding can carry, unequal element sizes, contradictory optionals, enum integers "
           "that are not values); non-trivial = distinct mutated (description,type,value)",
    "C06": "parents obtained from child values (Parent::try_from) and by decoding child encodings, "
           "their constraint-field mutants and arbitrary bytes; specialize() and every "
           "Child::try_from compared with the model of constraint matching; non-trivial = distinct "
           "(description,parent,value)",
    "C17": "every description exists as a little/big-endian twin; each value is encoded under both "
           "and the big-endian bytes must equal the little-endian bytes with exactly the segment "
           "map's runs reversed; non-trivial = distinct (description,type,value) whose encoding "
           "has at least one multi-byte run",
    "C18": "the five Packet trait methods side by side on every C01 input and every C02/C05 value; "
           "non-trivial = distinct (description,type,input)",
}


def _tasks(rc, flavour, p, props, **kw):
    return [dict({"di": i, "flavour": flavour, "nv": p["nv"], "nb": p["nb"], "props": props}, **kw)
            for i in range(len(rc.live))]


def _coverage(pid, tot, extra=None):
    cov = {
        "evaluations": tot["evals"], "distinct_nontrivial": len(tot["nontrivial"]),
        "rule": RULES[pid], "samples": tot["samples"][:5] or [{"note": "no sample recorded"}],
        "types_exercised": tot["types"], "ops": tot["ops"], "constructs": tot["constructs"],
        "oracle_abstentions": tot["abstain"],
    }
    for k in ("variants", "classes", "bad_tags"):
        if tot.get(k):
            cov[k] = tot[k]
    if tot.get("accepted") or tot.get("rejected"):
        cov["accepted_inputs"] = tot["accepted"]
        cov["rejected_inputs"] = tot["rejected"]
    if extra:
        cov.update(extra)
    return cov


def _selfcheck(check):
    from .. import selfcheck
    s = selfcheck.run()
    if s["mismatches"]:
        raise common.Inconclusive("oracle self-validation failed on canonical vectors: %r" % (s["mismatches"][:3],))
    return "reference model reproduced %d/%d canonical vectors (%d outside the modelled constructs)" % (
        s["encode_ok"] + s["error_ok"], s["vectors"], s["abstained"])


ASSUME = ["reference model (pv/refmodel.py) is a faithful reading of doc/reference.md; it is re-validated "
          "against the pinned canonical vectors at the start of every run",
          "descriptions come from pv/gen.py (round-trippable class, Rust-supported constructs)",
          "values cross the harness boundary as serde JSON of the generated types"]


def run(pid, tier):
    check = common.Check(pid, tier)
    p = rustwl.tier_params(tier)
    trusted = _selfcheck(check)
    extra = {"trusted_base": [trusted]}
    if pid == "C01":
        flavours = ("dev", "release")
        rc = rustwl.prepare(check, tier, flavours=flavours)
        results = []
        for fl in flavours:
            results += common.pmap(rustwl.dec_worker, _tasks(rc, fl, p, ["C01"]))
        results += common.pmap(rustwl.inh_worker, _tasks(rc, "dev", p, ["C01"]))
        tot = rustwl.merge(check, results, pid)
        extra["build_flavours"] = list(flavours)
        if tier == "thorough":
            extra.update(rustwl.miri_tier(check, "C01", 300))
        extra["median_op_latency_ns"] = sorted(tot["median_ns"])[len(tot["median_ns"]) // 2] if tot["median_ns"] else None
        extra["max_op_latency_ns"] = tot["max_ns"]
    elif pid in ("C02", "C03", "C05"):
        flavours = ("dev", "release") if (pid == "C05" and tier == "thorough") else ("dev",)
        rc = rustwl.prepare(check, tier, flavours=flavours)
        results = []
        for fl in flavours:
            results += common.pmap(rustwl.enc_worker, _tasks(rc, fl, p, [pid], bad=(pid == "C05"),
                                                             exhaustive_small=(pid == "C03")))
        tot = rustwl.merge(check, results, pid)
        if pid == "C03":
            extra["exhaustive_small_types"] = sum(r.get("exhaustive_types", 0) for r in results)
            extra["exhaustive"] = False
        if pid == "C02":
            extra["ancestor_chains_confirmed"] = sum(r.get("chains_ok", 0) for r in results)
            extra["ancestor_chains_open"] = sum(r.get("open_chain", 0) for r in results)
    elif pid == "C04":
        rc = rustwl.prepare(check, tier, flavours=("dev",))
        results = common.pmap(rustwl.dec_worker, _tasks(rc, "dev", p, ["C04"]))
        tot = rustwl.merge(check, results, pid)
    elif pid == "C06":
        rc = rustwl.prepare(check, tier, flavours=("dev",))
        results = common.pmap(rustwl.inh_worker, _tasks(rc, "dev", p, ["C06"]))
        tot = rustwl.merge(check, results, pid)
        oc = {}
        for r in results:
            for k, v in r.get("outcomes", {}).items():
                oc[k] = oc.get(k, 0) + v
        extra["specialize_outcomes"] = oc
        extra["decided_by_widened_admissible_set"] = sum(r.get("widened", 0) for r in results)
        extra["inheritance_trees"] = sum(r.get("trees", 0) for r in results)
    elif pid == "C18":
        rc = rustwl.prepare(check, tier, flavours=("dev",))
        results = common.pmap(rustwl.dec_worker, _tasks(rc, "dev", p, ["C18"]))
        results += common.pmap(rustwl.enc_worker, _tasks(rc, "dev", p, ["C18"], bad=True))
        tot = rustwl.merge(check, results, pid)
        if tier == "thorough":
            extra.update(rustwl.miri_tier(check, "C18", 200))
    elif pid == "C17":
        rc = rustwl.prepare(check, tier, flavours=("dev",))
        results = common.pmap(rustwl.enc_worker, _tasks(rc, "dev", p, ["C17"]))
        tot = rustwl.merge(check, results, pid)
        info = _c17(check, rc.live, results, "rust")
        from . import pywl
        pd = pywl.prepare(check, tier)
        pp = pywl.tier_params(tier)
        pres = common.pmap(pywl.worker, [{"di": i, "nv": pp["nv"], "nb": 0, "props": ["C17"]} for i in range(len(pd))])
        pinfo = _c17(check, pd, pres, "python")
        from . import cxxwl
        cd = cxxwl.prepare(check, tier, profiles=["bitfield", "array", "payload", "optional", "small", "structs", "mix"],
                           n_per_profile=1 if tier == "quick" else 4)
        if tier == "quick":
            cd = cd[:4]   # one build per description: the C++ side is sampled in quick, full in thorough
        cres = common.pmap(cxxwl.worker, [{"di": i, "nv": 8 if tier == "quick" else 20, "nb": 0, "props": ["C17"],
                                           "flavours": ["asan"]} for i in range(len(cd))], nproc=8)
        cinfo = _c17(check, cd, cres, "cxx")
        from . import javawl
        jd = javawl.prepare(check, tier, profiles=["bitfield", "inherit", "array", "payload", "enum"],
                            n_per_profile=1 if tier == "quick" else 4)
        jres = common.pmap(javawl.worker, [{"di": i, "nv": 8 if tier == "quick" else 20, "nb": 0, "props": ["C17"],
                                            "serialize_only": True} for i in range(len(jd))], nproc=8)
        jinfo = _c17(check, jd, jres, "java")
        tot["evals"] += sum(r["evals"] for r in pres) + sum(r["evals"] for r in cres) + sum(r["evals"] for r in jres)
        tot["nontrivial"] = info.pop("nontrivial") | pinfo.pop("nontrivial") | cinfo.pop("nontrivial") | jinfo.pop("nontrivial")
        extra.update({"rust": info, "python": pinfo, "cxx": cinfo, "java": jinfo, "backends": ["rust", "python", "cxx", "java"]})
    else:
        raise SystemExit("unknown rust check " + pid)
    if rc.dropped:
        extra["descriptions_dropped_before_run"] = {k: v.get("stage") for k, v in rc.dropped.items()}
    extra["descriptions"] = len(rc.live)
    return check.finish(_coverage(pid, tot, extra), assumptions=ASSUME, min_evaluations=100)


def _c17(check, descs, results, backend):
    """compare twin encodings: results[i] belongs to descs[i]"""
    by_name = {}
    for d, r in zip(descs, results):
        by_name[d["name"]] = (d, r)
    pairs = 0
    swapped_runs = 0
    nontrivial = set()
    for name, (d, r) in by_name.items():
        if A.endianness(d["file"]) != A.LE or d["twin"] not in by_name:
            continue
        d2, r2 = by_name[d["twin"]]
        le = {(t, v): (hx, segs) for t, v, hx, segs in r.get("c17", [])}
        be = {(t, v): (hx, segs) for t, v, hx, segs in r2.get("c17", [])}
        for key in le:
            if key not in be:
                continue
            pairs += 1
            hx, segs = le[key]
            hx2, _ = be[key]
            a = bytes.fromhex(hx)
            b = bytes.fromhex(hx2)
            pred = swap_endianness(a, [Seg(o, n, "") for o, n in segs])
            if segs:
                nontrivial.add(common.h(backend, name, key[0], key[1][:2000]))
                swapped_runs += len(segs)
            if len(a) != len(b) or pred != b:
                off = next((i for i in range(min(len(pred), len(b))) if pred[i] != b[i]), min(len(pred), len(b)))
                what = "length" if len(a) != len(b) else "bytes"
                seg = next(("%dB-run" % n for o, n in segs if o <= off < o + n), "outside-any-run")
                check.violation("C17|%s|twin-%s-differ|%s" % (backend, what, seg), {
                    "desc": name, "twin": d["twin"], "type": key[0], "value": json.loads(key[1]),
                    "little_endian_hex": hx, "big_endian_hex": hx2, "predicted_big_endian_hex": pred.hex(),
                    "first_diff": off, "pdl": d["text"]})
    return {"twin_pairs_compared": pairs, "reversed_runs_checked": swapped_runs, "nontrivial": nontrivial}
