"""C09 — well-formed input is accepted regardless of order / layout / radix; groups behave as
if written inline."""
from __future__ import annotations

import itertools
import random
import re

from .. import ast as A
from .. import gen, render
from ..engines.driver import Driver, analyze_ok, codes, panic_of
from . import common

RULE = ("well-formed generator descriptions (all profiles): (a) must be accepted; (b) every permutation of "
        "the declarations (all n! for n<=5, sampled beyond) and randomized token-level re-layouts (whitespace, "
        "comments, radix) must give the same verdict, the same analyzed declarations (compared by id, loc "
        "stripped) and the same multiset of generated Rust/Python/C++ top-level items; (c) a description using "
        "groups and the model's own inlined twin (constrained group fields -> fixed fields) must analyze to the "
        "same declarations and generate the same code; (d) one-edit ill-formed variants must report the same set "
        "of error codes under permutation and re-layout; non-trivial = distinct (description, presentation) pair")

BACKENDS = ["gen:rust", "gen:python", "gen:cxx"]


def chunks(text):
    """multiset of column-0 delimited items of generated code"""
    out = []
    cur = []
    for line in text.split("\n"):
        if line and not line[0].isspace() and line[0] not in "})]" and cur:
            out.append("\n".join(cur))
            cur = []
        cur.append(line)
    if cur:
        out.append("\n".join(cur))
    return sorted(c.rstrip() for c in out if c.strip())


def analyzed_by_id(r):
    f = A.strip_loc(r.get("analyzed") or {})
    return {d.get("id", "?%d" % i): d for i, d in enumerate(f.get("declarations", []))}


def observe(drv, text, with_gen=True, backends=None):
    backends = BACKENDS if backends is None else backends
    ops = ["analyze", "analyzed"] + (backends if with_gen else [])
    r = drv.request(text, ops, name="input.pdl")
    o = {"ok": analyze_ok(r), "codes": codes(r), "panic": panic_of(r), "crash": r.get("crash") or r.get("timeout")}
    if o["ok"]:
        o["decls"] = analyzed_by_id(r)
        o["endianness"] = A.strip_loc(r.get("analyzed") or {}).get("endianness")
        for b in backends if with_gen else []:
            g = r.get(b, {})
            o[b] = chunks(g["ok"]) if "ok" in g else ("FAILED: " + str(g)[:300])
    elif "ok" not in r.get("parse", {}):
        o["parse_error"] = str(r.get("parse"))[:400]
    return o


def same(a, b, keys):
    for k in keys:
        if a.get(k) != b.get(k):
            return k
    return None


def excluded_backends(features):
    """backends whose documented construct set does not cover the description"""
    sup = gen.supported_by(features)
    return {"gen:rust": "rust" not in sup, "gen:python": "python" not in sup, "gen:cxx": "cxx" not in sup}


def permutations_of(decls, rng, limit):
    n = len(decls)
    if n <= 5:
        for p in itertools.permutations(range(n)):
            yield p
    else:
        seen = set()
        for _ in range(limit):
            p = list(range(n))
            rng.shuffle(p)
            if tuple(p) not in seen:
                seen.add(tuple(p))
                yield tuple(p)
        yield tuple(reversed(range(n)))


def worker(task):
    sd, profiles, nperm, nlayout = task
    drv = Driver(timeout=60)
    res = {"evals": 0, "nontrivial": set(), "viol": [], "samples": [], "perms": 0, "layouts": 0, "twins": 0,
           "accepted": 0, "illformed_pairs": 0, "full_perm_descs": 0}

    def V(sig, case):
        res["viol"].append(("C09|analyzer|" + sig, case))

    for prof in profiles:
        g = gen.generate(sd, prof, shuffle=False)
        f = g["file"]
        rng = random.Random("%s/%s/c09" % (sd, prof))
        skip = excluded_backends(g["features"])
        bks = [b for b in BACKENDS if not skip[b]]
        # the property speaks of acceptance, error codes and analyzed declarations for
        # permutations (generated child enums legitimately follow declaration order); generated
        # code must be identical for re-layouts and for the group / inlined twin
        keys_perm = ["ok", "codes", "decls", "endianness"]
        keys = keys_perm + bks
        text, _ = render.render(f)
        base = observe(drv, text, backends=bks)
        res["evals"] += 1
        case0 = {"profile": prof, "gen_seed": sd, "text": text}
        if base["panic"] or base["crash"]:
            V("crash-on-well-formed|%s" % str(base["panic"] or "crash")[:80], dict(case0, observed=str(base)[:600]))
            continue
        if not base["ok"]:
            V("rejects-well-formed:%s|%s" % ("+".join(base["codes"]) or "parse", prof), dict(case0, observed=str(base)[:800]))
            continue
        res["accepted"] += 1
        for b in bks:
            if isinstance(base.get(b), str):
                V("backend-fails-on-accepted|%s" % b, dict(case0, observed=base[b]))
        decls = f["declarations"]
        # (b1) permutations — subsets of <=5 declarations closed under references are hard to
        # cut generically, so permute the whole file; exhaustive only when it has <=5 declarations
        if len(decls) <= 5:
            res["full_perm_descs"] += 1
        for perm in permutations_of(decls, rng, nperm):
            g2 = dict(f)
            g2["declarations"] = [decls[i] for i in perm]
            t2, _ = render.render(g2)
            o = observe(drv, t2, backends=bks)
            res["evals"] += 1
            res["perms"] += 1
            res["nontrivial"].add(common.h(sd, prof, "perm", perm))
            k = same(base, o, keys_perm)
            for b in bks:
                if k is None and isinstance(o.get(b), str):
                    k = b  # backend failed on a permutation of an accepted description
            if k or o["panic"] or o["crash"]:
                V("order-dependence:%s|%s" % (k or "crash", prof), dict(case0, permuted_text=t2, differs_in=k,
                                                                   observed=_brief(o, k), expected=_brief(base, k)))
                break
        # (b2) re-layouts
        for j in range(nlayout):
            t3, _ = render.render(f, random.Random("%s/%s/layout%d" % (sd, prof, j)), fancy=True, hex_upper_prefix=True)
            o = observe(drv, t3, backends=bks)
            res["evals"] += 1
            res["layouts"] += 1
            res["nontrivial"].add(common.h(sd, prof, "layout", j))
            k = same(base, o, keys)
            if k or o["panic"] or o["crash"]:
                V("layout-dependence:%s|%s" % (k or "crash", prof), dict(case0, relayout_text=t3, differs_in=k,
                                                                    observed=_brief(o, k), expected=_brief(base, k)))
                break
        # (c) groups vs inlined twin
        if any(d["kind"] == "group_declaration" for d in decls):
            twin = A.inline_groups(f)
            t4, _ = render.render(twin)
            o = observe(drv, t4, backends=bks)
            res["evals"] += 1
            res["twins"] += 1
            res["nontrivial"].add(common.h(sd, prof, "twin"))
            k = same(base, o, keys)
            if k:
                V("group-differs-from-inlined:%s" % k, dict(case0, inlined_text=t4, differs_in=k,
                                                            observed=_brief(o, k), expected=_brief(base, k)))
            if len(res["samples"]) < 1:
                res["samples"].append({"grouped": text[:300], "inlined_twin": t4[:300]})
        elif len(res["samples"]) < 1 and prof == "inherit":
            res["samples"].append({"profile": prof, "declarations": len(decls), "permutations_tried": res["perms"]})
        # (d) ill-formed: code set invariance
        for (bad, expect) in illformed(f, rng)[:3]:
            tb, _ = render.render(bad)
            ob = observe(drv, tb, with_gen=False)
            res["evals"] += 1
            if ob["ok"] or ob["panic"] or ob["crash"]:
                continue  # C08's business
            bd = bad["declarations"]
            for perm in itertools.islice(permutations_of(bd, rng, 3), 4):
                g2 = dict(bad)
                g2["declarations"] = [bd[i] for i in perm]
                t2, _ = render.render(g2, random.Random(str(perm)), fancy=True)
                o2 = observe(drv, t2, with_gen=False)
                res["evals"] += 1
                res["illformed_pairs"] += 1
                res["nontrivial"].add(common.h(sd, prof, "ill", expect, perm))
                if o2["ok"] != ob["ok"] or o2["codes"] != ob["codes"]:
                    V("error-codes-depend-on-presentation|%s" % expect,
                      {"text": tb, "other_text": t2, "codes": ob["codes"], "other_codes": o2["codes"]})
                    break
    drv.close()
    res["nontrivial"] = sorted(res["nontrivial"])
    return res


def _brief(o, k):
    v = o.get(k) if k else o
    if isinstance(v, dict) and k == "decls":
        return {"ids": sorted(v)[:40]}
    if isinstance(v, list):
        return v[:3]
    return str(v)[:600]


def illformed(f, rng):
    """a few one-edit ill-formed variants (full catalogue lives in C08)"""
    import copy
    out = []
    ds = f["declarations"]
    # duplicate declaration id
    if len(ds) >= 2:
        g = copy.deepcopy(f)
        g["declarations"][1]["id"] = g["declarations"][0]["id"]
        out.append((g, "E1"))
    # undeclared typedef
    for i, d in enumerate(ds):
        if d["kind"] in ("packet_declaration", "struct_declaration"):
            g = copy.deepcopy(f)
            g["declarations"][i]["fields"].append(A.typedef("zz_undeclared", "NoSuchType"))
            out.append((g, "E5"))
            g = copy.deepcopy(f)
            g["declarations"][i]["fields"].append(A.fixed_scalar(256, 8))
            out.append((g, "E32"))
            break
    rng.shuffle(out)
    return out


def run(tier):
    check = common.Check("C09", tier)
    nseeds = 128 if tier == "thorough" else 16
    nperm = 24 if tier == "thorough" else 8
    nlayout = 6 if tier == "thorough" else 2
    tasks = [("%d.%d" % (check.seed, j), gen.PROFILES, nperm, nlayout) for j in range(nseeds)]
    results = common.pmap(worker, tasks)
    tot = {"evals": 0, "nontrivial": set(), "samples": []}
    agg = {k: 0 for k in ("perms", "layouts", "twins", "accepted", "illformed_pairs", "full_perm_descs")}
    for r in results:
        tot["evals"] += r["evals"]
        tot["nontrivial"].update(r["nontrivial"])
        for k in agg:
            agg[k] += r[k]
        if len(tot["samples"]) < 3:
            tot["samples"].extend(r["samples"][:1])
        check.add_violations(r["viol"])
    cov = {"evaluations": tot["evals"], "distinct_nontrivial": len(tot["nontrivial"]), "rule": RULE,
           "samples": tot["samples"] or [{"note": "none"}], "descriptions_accepted": agg["accepted"],
           "permutations_compared": agg["perms"], "descriptions_with_all_permutations": agg["full_perm_descs"],
           "relayouts_compared": agg["layouts"], "group_inline_twins_compared": agg["twins"],
           "illformed_presentation_pairs": agg["illformed_pairs"], "backends_compared": BACKENDS}
    return check.finish(cov, assumptions=["generator descriptions are well-formed by construction (pv/gen.py)",
                                          "generated code is compared as a multiset of column-0 delimited items"],
                        min_evaluations=50)
