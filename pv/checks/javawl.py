"""Workload over the generated-Java harness (C19, and the Java side of C07)."""
from __future__ import annotations

import json
import random
import re

from .. import ast as A
from .. import corpus, gen
from ..engines import java as JV
from ..engines.py import match
from ..refmodel import Abstain, Model
from ..values import ValueGen
from . import common, rustwl

_DESCS = None


def tier_params(tier):
    if tier == "thorough":
        return {"n_per_profile": 8, "nv": 24, "nb": 200}
    return {"n_per_profile": 2, "nv": 8, "nb": 60}


def prepare(check, tier, profiles=None, n_per_profile=None):
    global _DESCS
    p = tier_params(tier)
    profiles = profiles or ["bitfield", "array", "payload", "inherit", "enum", "groups", "small", "structs", "hostile", "matrix"]
    ds = corpus.descriptions(check.seed, n_per_profile or p["n_per_profile"], profiles, shuffle=False)
    _DESCS = ds
    return _DESCS


def exc_class(r):
    return (r.get("exc") or "").split(".")[-1]


def worker(task):
    d = _DESCS[task["di"]]
    props = set(task["props"])
    m = Model(d["file"])
    rng = random.Random("%s/%s/java" % (d["gen_seed"], d["profile"]))
    res = {"evals": 0, "nontrivial": set(), "viol": [], "samples": [], "abstain": 0, "ops": {}, "types": 0,
           "accepted": 0, "rejected": 0, "classes": {}, "constructs": {}, "exc": {}, "excluded_decls": 0,
           "dispatch": {}, "c07": {}, "skipped_values": 0}

    def V(pid, sig, case):
        if pid in props:
            case.update({"desc": d["name"], "profile": d["profile"], "gen_seed": d["gen_seed"],
                         "endianness": A.endianness(d["file"]), "pdl": d["text"]})
            res["viol"].append((pid, "%s|java|%s" % (pid, sig), case))

    excl = JV.auto_exclude(d["file"])
    res["excluded_decls"] = len(excl)
    types = [t for t in rustwl.types_of(m.file) if t not in excl and m.dm[t]["kind"] != "custom_field_declaration"]
    if not types:
        return _fin(res)
    h = JV.JavaHarness(d["name"], d["file"], d["text"], exclude=excl)
    values, encs = {}, {}
    for tid in types:
        vg = ValueGen(m, rng, max_array=20, max_payload=24)
        vals = vg.valid_values(tid, task["nv"])
        values[tid] = [v for v, _ in vals]
        encs[tid] = vals
    try:
        h.generate()
        h.build(values)
    except JV.JavaError as e:
        msg = str(e)
        if getattr(e, "stage", "") == "generate":
            V("C19", "backend-fails|%s" % rustwl.norm_msg(rustwl_panic(msg)), {"observed": msg[-1500:]})
            V("C10", "java|backend-fails:%s|generator:%s" % (rustwl.norm_msg(rustwl_panic(msg)), d["profile"]), {"observed": msg[-1500:]})
        else:
            first = next((ln for ln in msg.split("\n") if "error:" in ln), msg.split("\n")[0])
            sig = rustwl.norm_msg(re.sub(r"^.*?error:", "", first))
            V("C19", "generated-code-does-not-compile|%s" % sig, {"observed": msg[-2500:]})
            V("C10", "java|generated-code-does-not-compile:%s|generator:%s" % (sig, d["profile"]), {"observed": msg[-2500:]})
        return _fin(res)
    try:
        # ---- build side
        for e in h.serialize_all():
            tid, i = e["type"], e["i"]
            v, enc = encs[tid][i]
            want = bytes(enc.data).hex()
            res["evals"] += 1
            res["ops"]["serialize"] = res["ops"].get("serialize", 0) + 1
            case = {"type": tid, "op": "serialize", "value": v, "expected_hex": want}
            if "skip" in e:
                res["skipped_values"] += 1
                continue
            if e.get("timeout") or e.get("crash"):
                res["harness_timeouts"] = res.get("harness_timeouts", 0) + 1   # infrastructure, not a verdict
                continue
            if "exc" in e:
                V("C19", _sig(m, tid, "serialize", "serialize-throws:%s" % exc_class(e), "value"), dict(case, observed=_brief(e)))
                continue
            res["nontrivial"].add(common.h(d["name"], tid, want))
            if "C17" in props and e.get("hex") and len(e["hex"]) == len(want) and hazard(m, tid, "serialize") == "plain":
                # C17 judges the implementation's own bytes under both byte orders (types that run through a
                # recorded serializer defect are left out)
                res.setdefault("c17", []).append((tid, json.dumps(v, sort_keys=True), e["hex"], [(s.off, s.len) for s in enc.segs]))
            if e.get("hex") != want:
                off = rustwl._first_diff(bytes.fromhex(e.get("hex", "")), bytes(enc.data))
                V("C19", _sig(m, tid, "serialize", "wrong-bytes", rustwl._locate(m, enc, off)), dict(case, observed=e.get("hex"), first_diff=off))
                continue
            res["c07"].setdefault(tid, []).append((json.dumps(v, sort_keys=True), e["hex"]))
            child_fails = False
            if e.get("reparse_exc") and A.children_of(m.file, tid):
                # the fallback object carries constraint values of a real child whose payload does not parse:
                # its bytes are the parent's encoding, which Java (having no parent object) answers with the
                # child's exception - the counterpart of specialize() = Err in Rust, see the parse side
                try:
                    child_fails = ("err",) in m.specialize(tid, v)[0]
                except Abstain:
                    child_fails = True
            if e.get("reparse_equals") is False and e.get("reparse_class") in (None, e.get("class")) and not child_fails:
                # (a fallback object whose payload happens to parse as a child legitimately reparses
                # as that child: not comparable)
                V("C19", _sig(m, tid, "parse", "reparse-of-own-bytes-not-equal", "value"),
                  dict(case, observed=_brief(e)))
            if len(res["samples"]) < 1:
                res["samples"].append({"desc": d["name"], "type": tid, "value": v, "java_hex": e["hex"]})
        # ---- parse side
        for tid in (types if not task.get("serialize_only") else []):
            res["types"] += 1
            for c in rustwl.type_constructs(m, tid):
                res["constructs"][c] = res["constructs"].get(c, 0) + 1
            ins = rustwl.inputs_for(m, tid, encs[tid], random.Random("%s/%s/javain" % (d["gen_seed"], tid)), task["nb"])
            outs = h.parse(tid, [b for b, _ in ins])
            for (b, tag), r in zip(ins, outs):
                res["evals"] += 1
                res["ops"]["parse"] = res["ops"].get("parse", 0) + 1
                tclass = tag.split(":")[0]
                res["classes"][tclass] = res["classes"].get(tclass, 0) + 1
                # an intermediate child (it has a payload of its own) is an abstract class whose static
                # fromBytes(byte[]) *is* the root's: judge the call as what it is
                jt = tid
                if m.dm[tid].get("parent_id") and A.get_payload(m.dm[tid]) is not None:
                    jt = m.chain(m.dm[tid])[0]["id"]
                exp = rustwl.expectation(m, jt, b)
                where = rustwl.where_of(m, exp)
                case = {"type": tid, "judged_as": jt, "op": "parse", "hex": b.hex(), "input_class": tag,
                        "model": exp[0] if exp[0] != "fault" else {"fault": exp[1], "at": exp[2]}}
                if r.get("timeout") or r.get("crash"):
                    # re-run alone with a long deadline before calling it non-termination
                    old_to, h.timeout = h.timeout, 90.0
                    try:
                        r = h.parse(tid, [b])[0]
                    finally:
                        h.timeout = old_to
                    if r.get("timeout") or r.get("crash"):
                        V("C19", _sig(m, tid, "parse", "parser-hangs-or-dies", "input"), dict(case, observed=_brief(r)))
                        continue
                    res["slow_inputs"] = res.get("slow_inputs", 0) + 1
                if exp[0] == "abstain":
                    res["abstain"] += 1
                    continue
                if len(b):
                    res["nontrivial"].add(common.h(d["name"], tid, b.hex()))
                if "exc" in r:
                    res["rejected"] += 1
                    res["exc"][exc_class(r)] = res["exc"].get(exc_class(r), 0) + 1
                    if exp[0] == "ok":
                        if A.children_of(m.file, jt):
                            # the reference accepts the bytes as the *parent*; Java has no parent object, only
                            # children: a child whose constraints match and whose payload does not parse is an
                            # exception here, exactly as specialize() is an error in Rust
                            try:
                                if ("err",) in m.specialize(jt, exp[1])[0]:
                                    res["dispatch"]["matching-child-does-not-parse"] = res["dispatch"].get("matching-child-does-not-parse", 0) + 1
                                    continue
                            except Abstain:
                                continue
                        V("C19", _sig(m, tid, "parse", "rejects-valid:%s" % exc_class(r), where), dict(case, observed=_brief(r)))
                    continue
                res["accepted"] += 1
                if exp[0] == "fault":
                    V("C19", _sig(m, tid, "parse", "accepts-invalid:%s" % exp[1][0],
                                  "inside-array-element" if (len(exp) > 3 and exp[3]) else where), dict(case, observed=_brief(r)))
                    continue
                cls = r.get("class", "")
                if cls.startswith("Unknown") and cls[7:] in m.dm and cls[7:] != jt:
                    cls = cls[7:]   # the fallback object of an intermediate child X is an X
                want_v = exp[1]
                got = r.get("ok")
                if cls != jt and cls in m.dm and isinstance(want_v, dict):
                    # a descendant object: its own payload replaces the ancestor's, and fields it
                    # constrains are constants, not members
                    ccons = {i: m.constraint_int(m.dm[cls], c) for i, c in m.all_constraints(m.dm[cls]).items()}
                    bad_const = [k for k, x in want_v.items() if k in ccons and ccons[k] != x]
                    if bad_const:
                        V("C19", _sig(m, tid, "parse", "dispatch-selects-child-whose-constraint-fails", "dispatch"),
                          dict(case, observed_class=cls, expected=want_v))
                        continue
                    want_v = {k: x for k, x in want_v.items() if k != "payload" and k not in ccons}
                elif cls != jt and isinstance(want_v, dict) and "payload" in want_v:
                    want_v = {k: x for k, x in want_v.items() if k != "payload"}
                if not match(got, want_v):
                    V("C19", _sig(m, tid, "parse", "wrong-field-values", rustwl._diff_where(m, jt, got or {}, want_v)),
                      dict(case, observed=got, expected=want_v, observed_class=cls))
                    continue
                # dispatch
                if A.children_of(m.file, jt):
                    try:
                        outcomes, expected, widened = m.specialize(jt, exp[1])
                    except Abstain:
                        continue
                    kids = {c["id"] for c in A.children_of(m.file, jt)}
                    desc_ids = set()

                    def walk(x):
                        for c in A.children_of(m.file, x):
                            desc_ids.add(c["id"])
                            walk(c["id"])
                    walk(jt)
                    if cls in desc_ids:
                        gotk = "child"
                    elif cls.startswith("Unknown") or cls == jt:
                        gotk = "fallback"
                    else:
                        gotk = "other:" + cls
                    res["dispatch"][gotk] = res["dispatch"].get(gotk, 0) + 1
                    must_child = all(o[0] == "child" for o in outcomes)
                    if must_child and gotk != "child" and not widened:
                        V("C19", _sig(m, tid, "parse", "dispatch-misses-matching-child", "dispatch"), dict(case, observed_class=cls,
                                                                                               admissible=sorted(map(list, outcomes))))
                    elif gotk == "child" and ("none",) in outcomes and len(outcomes) == 1:
                        V("C19", _sig(m, tid, "parse", "dispatch-selects-child-without-match", "dispatch"), dict(case, observed_class=cls))
    finally:
        h.close()
    return _fin(res)


def rustwl_panic(msg):
    mm = re.search(r"panicked at ([^:\n]+):\d+:\d+:\n([^\n]*)", msg)
    if mm:
        return re.sub(r"^.*/pdl-compiler/src/", "", mm.group(1)) + " " + mm.group(2)
    return msg.split("\n")[0]


def builder_ctx(m, tid, v):
    return ",".join(rustwl.type_constructs(m, tid))[:60] or "bitfields-only"


def width_ctx(m, tid, v=None):
    """which multi-byte widths the type's chunks / elements have (Java's 24/40/48/56-bit readers are
    a separate code path)"""
    ws = set()
    d = m.dm[tid]

    def scan(x, depth=0):
        run = 0
        for fl in x.get("fields", ()):
            if m.is_bitfield(fl):
                run += m.bit_width(fl)
                if run % 8 == 0:
                    ws.add(run)
                    run = 0
            elif fl["kind"] == "array_field":
                if fl.get("width"):
                    ws.add(fl["width"])
                elif m.kind(fl["type_id"]) == "enum_declaration":
                    ws.add(m.dm[fl["type_id"]]["width"])
                elif depth < 3:
                    scan(m.dm[fl["type_id"]], depth + 1)
            elif fl["kind"] == "typedef_field" and m.kind(fl["type_id"]) == "struct_declaration" and depth < 3:
                scan(m.dm[fl["type_id"]], depth + 1)
    for x in m.chain(d):
        scan(x)
    odd = sorted(w for w in ws if w in (24, 40, 48, 56))
    return "chunks:" + ("+".join(str(w) for w in odd) if odd else "8/16/32/64-only")


def _sig(m, tid, side, failure, precise):
    """Signature of a C19 event. A type that runs through one of the backend's recorded broken code paths
    (hazard) yields garbage of every kind downstream - wrong values, wrong acceptance, wrong dispatch,
    exceptions of any class - so for such a type the event is keyed on the root cause and the side
    (`parse-diverges|oddchunk`); the failure class stays in the replay. Types free of hazards keep the
    precise key (failure class + construct)."""
    hz = hazard(m, tid, side)
    if hz != "plain":
        return "%s-diverges|%s" % (side, hz)
    return "%s|%s" % (failure, precise)


def hazard(m, tid, side=None):
    """primary known-defect hazard present in a type (own + ancestors + nested structs): the Java
    backend's recorded root causes each belong to one emitted code path
      oddchunk  : a chunk / array element of 24, 40, 48 or 56 bits (Utils.get24/40/48/56 shift the wrong way)
      intshift  : a chunk wider than 32 bits holding a member of Java type <= int that ends above bit 32
      smallsize : a size / count field of exactly 8 or 16 bits (held in a Java byte / short and sign-extended)
      sizemod   : a size modifier (operator precedence in the generated subtraction)
      struct-tree-field : a field / element whose struct type has a parent or children (the field's parser is
                  the root struct's fromBytes over the *whole* remaining buffer)
      plain     : none of these"""
    found = set()

    def scan(x, depth=0):
        chunk = []
        for fl in x.get("fields", ()):
            if m.is_bitfield(fl):
                chunk.append(fl)
                tot = sum(m.bit_width(f) for f in chunk)
                if tot % 8 == 0:
                    if tot in (24, 40, 48, 56):
                        found.add("oddchunk")
                    if tot > 32:
                        off = 0
                        for f in chunk:
                            w = m.bit_width(f)
                            if w <= 32 and off + w > 32 and f["kind"] != "reserved_field":
                                found.add("intshift")
                            off += w
                    if any(f["kind"] in ("size_field", "count_field") and f["width"] in (8, 16) for f in chunk):
                        found.add("smallsize")
                    chunk = []
            elif fl["kind"] == "array_field":
                w = fl.get("width") or (m.dm[fl["type_id"]].get("width") if m.kind(fl["type_id"]) == "enum_declaration" else None)
                if w in (24, 40, 48, 56):
                    found.add("oddchunk")
                if fl.get("size_modifier"):
                    found.add("sizemod")
                if fl.get("type_id") and m.kind(fl["type_id"]) == "struct_declaration" and depth < 4:
                    scan(m.dm[fl["type_id"]], depth + 1)
            elif fl["kind"] == "typedef_field" and m.kind(fl["type_id"]) == "struct_declaration" and depth < 4:
                scan(m.dm[fl["type_id"]], depth + 1)
            elif fl["kind"] == "payload_field" and fl.get("size_modifier"):
                found.add("sizemod")
    d = m.dm[tid]
    for x in m.chain(d):
        scan(x)
    # a parent's parser also runs its children's parsers
    def kids(x, depth=0):
        for c in A.children_of(m.file, x):
            scan(c)
            if depth < 4:
                kids(c["id"], depth + 1)
    kids(tid)
    # an unconstrained child (own or below) that is not of constant size is never selected by fromBytes
    def unconstrained(x):
        return x.get("parent_id") and not x.get("constraints") and m.static_bits_decl(x["id"]) is None
    if unconstrained(d) or any(unconstrained(c) for c in m.descendants(tid)):
        found.add("unconstrained-dynamic-child")
    if rustwl.struct_tree_field(m, tid, derived_only=False):
        found.add("struct-tree-field")
    # each root cause sits on one side: the parser reads odd chunks / small sizes / modifiers wrongly, the
    # serializer shifts in int; a hazard of the other side does not explain an event on this one
    order = {"parse": ("oddchunk", "smallsize", "sizemod", "unconstrained-dynamic-child", "struct-tree-field"),
             "serialize": ("oddchunk", "intshift")}.get(
        side, ("oddchunk", "intshift", "smallsize", "sizemod", "unconstrained-dynamic-child", "struct-tree-field"))
    for h in order:
        if h in found:
            return h
    return "plain"


def dispatch_ctx(m, tid):
    p = m.dm[tid]
    return "sized-payload" if m.payload_size_field(p) else "unsized-payload"


def _brief(r):
    return {k: (v if not isinstance(v, str) else v[:300]) for k, v in r.items() if k not in ("elapsed", "id")}


def _fin(res):
    res["nontrivial"] = sorted(res["nontrivial"])
    return res
