"""Workload over the generated-C++ harness (C14, and the C++ side of C07/C15/C17)."""
from __future__ import annotations

import json
import os
import random
import re

from .. import ast as A
from .. import corpus, gen
from ..engines import cxx as CX
from ..engines.py import match
from ..refmodel import Model
from ..values import ValueGen
from . import common, rustwl

_DESCS = None


def tier_params(tier):
    if tier == "thorough":
        return {"n_per_profile": 5, "nv": 24, "nb": 300, "valgrind": 24}
    return {"n_per_profile": 2, "nv": 8, "nb": 100, "valgrind": 0}


def prepare(check, tier, profiles=None, n_per_profile=None):
    global _DESCS
    p = tier_params(tier)
    ds = corpus.descriptions(check.seed, n_per_profile or p["n_per_profile"], profiles, shuffle=False)
    _DESCS = [d for d in ds if "cxx" in gen.supported_by(d["features"])]
    return _DESCS


def excluded_for_cxx(f):
    """declarations outside what the C++ backend can be asked to compile (C10 reports those);
    closed under references"""
    bad = set(CX.unsupported_declarations(f)) | set(CX.uncompilable_declarations(f))
    return sorted(bad)


def _enclosing(header_path, line):
    """(class, function) enclosing a line of a generated header, read off its text: the fallback when the
    sanitizer's stack could not be symbolized (llvm-symbolizer starved on a loaded machine)"""
    try:
        text = open(header_path, errors="replace").read().split("\n")
    except OSError:
        return None, None
    fn = cls = None
    for i in range(min(line, len(text)) - 1, -1, -1):
        ln = text[i]
        if fn is None:
            mm = re.match(r"\s+(?:static\s+)?[\w:<>,\s\*&]+?\b(\w+)\s*\([^;]*\)\s*(?:const\s*)?(?:override\s*)?\{\s*$", ln)
            if mm and mm.group(1) not in ("if", "for", "while", "switch"):
                fn = mm.group(1)
        mm = re.match(r"(?:class|struct)\s+(\w+)", ln)
        if mm:
            cls = mm.group(1)
            break
    return cls, fn


def crash_sig(c, header_dir=None):
    """kind : what | where - `where` names the generated function by role (View::Parse, Struct::Parse,
    View::Get*, Builder::*), from the symbolized frame when there is one and from the header text otherwise,
    so that the same crash has the same key whether or not the symbolizer got to run"""
    kind = c.get("kind", "?")
    rep = c.get("report", "") or ""
    frame = c.get("gen_frame") or c.get("top_frame") or ""
    cls = fn = None
    mm = re.search(r"(\w+)::(\w+)\(", str(frame))
    if mm:
        cls, fn = mm.group(1), mm.group(2)
    else:
        mm = re.match(r"(\S+\.h):(\d+)", str(frame)) or re.search(r"(/\S+\.h):(\d+):\d+: runtime error", rep)
        if mm:
            path = mm.group(1)
            if not os.path.isabs(path) and header_dir:
                path = os.path.join(header_dir, path)
            cls, fn = _enclosing(path, int(mm.group(2)))
    if cls and fn:
        role = "View" if cls.endswith("View") else "Builder" if cls.endswith("Builder") else "Struct"
        where = "%s::%s" % (role, "Get*" if fn.startswith("Get") and fn != "GetSize" else fn)
    elif "packet_runtime.h" in str(frame):
        where = "packet_runtime.h"
    else:
        where = "?"
    what = ""
    mm = re.search(r"runtime error: ([^\n]+)", rep)
    if mm:
        what = re.sub(r"\d+", "N", re.sub(r"'[^']*'", "T", mm.group(1)))[:70]
    else:
        mm = re.search(r"AddressSanitizer: ([\w-]+)", rep)
        if mm:
            what = mm.group(1)
        elif c.get("assertion"):
            what = "assert:" + re.sub(r"\d+", "N", str(c["assertion"]))[:60]
    return "%s:%s|%s" % (kind, what, where)


def worker(task):
    d = _DESCS[task["di"]]
    props = set(task["props"])
    m = Model(d["file"])
    rng = random.Random("%s/%s/cxx" % (d["gen_seed"], d["profile"]))
    res = {"evals": 0, "nontrivial": set(), "viol": [], "samples": [], "abstain": 0, "ops": {}, "types": 0,
           "accepted": 0, "rejected": 0, "classes": {}, "c17": [], "constructs": {}, "crash_kinds": {},
           "excluded_decls": 0, "flavours": {}, "valgrind_inputs": 0, "c07": {}}

    def V(pid, sig, case):
        if pid in props:
            case.update({"desc": d["name"], "profile": d["profile"], "gen_seed": d["gen_seed"],
                         "endianness": A.endianness(d["file"]), "pdl": d["text"]})
            res["viol"].append((pid, "%s|cxx|%s" % (pid, sig), case))

    excl = excluded_for_cxx(d["file"])
    res["excluded_decls"] = len(excl)
    h = CX.CxxHarness(d["name"], d["file"], d["text"], exclude=excl)
    try:
        h.generate()
    except CX.CxxError as e:
        V("C14", "backend-fails|%s" % rustwl.norm_msg(str(e)[-200:]), {"observed": str(e)[-1500:]})
        return _fin(res)
    types = [t for t in h.types() if t in m.dm]
    values = {}
    encs = {}
    for tid in types:
        vg = ValueGen(m, rng, max_array=20, max_payload=24)
        vals = vg.valid_values(tid, task["nv"])
        values[tid] = [v for v, _ in vals]
        encs[tid] = vals
    flavours = task.get("flavours", ["asan", "asan-ndebug"])
    try:
        for fl in flavours:
            h.build(values, fl)
    except CX.CxxError as e:
        msg = str(e)
        first = next((ln for ln in msg.split("\n") if "error" in ln), msg.split("\n")[0])
        V("C14", "driver-does-not-compile|%s" % rustwl.norm_msg(re.sub(r"^.*?error:?", "", first)), {"observed": msg[-2500:]})
        V("C10", "cxx|generated-code-does-not-compile:%s|generator:%s" % (rustwl.norm_msg(re.sub(r"^.*?error:?", "", first)), d["profile"]),
          {"observed": msg[-2500:]})
        return _fin(res)
    exps = {}
    es0s = {}
    for fl in flavours:
        # ---- build side
        ser = h.serialize_all(fl)
        for e in ser:
            tid, i = e["type"], e["i"]
            v, enc = encs[tid][i]
            want = bytes(enc.data).hex()
            res["evals"] += 1
            res["ops"]["serialize"] = res["ops"].get("serialize", 0) + 1
            cons = ",".join(rustwl.type_constructs(m, tid))[:100]
            case = {"type": tid, "op": "serialize", "value": v, "expected_hex": want, "flavour": fl}
            if "crash" in e:
                res["crash_kinds"][e["crash"].get("kind")] = res["crash_kinds"].get(e["crash"].get("kind"), 0) + 1
                V("C14", "serialize-crash:%s" % crash_sig(e["crash"], h.dir), dict(case, observed=_short_crash(e["crash"])))
                continue
            if "error" in e or "hex" not in e:
                continue  # value not expressible through the generated constructors
            res["nontrivial"].add(common.h(d["name"], tid, want, fl))
            if fl == "asan" and len(e["hex"]) == len(want) and builder_context(m, tid) is None:
                # C17 judges the implementation's own bytes under both byte orders, right or wrong against
                # the reference (only the layout - where the runs are - comes from the model); types with a
                # recorded builder defect that moves fields around are left out
                res["c17"].append((tid, json.dumps(v, sort_keys=True), e["hex"], [(s.off, s.len) for s in enc.segs]))
            if e["hex"] != want:
                if empty_elementsize_array(m, tid, v):
                    res["abstain"] += 1   # element size of an empty array: the reference is silent
                    continue
                off = rustwl._first_diff(bytes.fromhex(e["hex"]), bytes(enc.data))
                V("C14", "wrong-bytes|%s" % (builder_context(m, tid) or rustwl._locate(m, enc, off)),
                  dict(case, observed=e["hex"], first_diff=off))
            elif fl == "asan":
                res["c07"].setdefault(tid, []).append((json.dumps(v, sort_keys=True), e["hex"]))
            if e.get("size") != len(e["hex"]) // 2:
                V("C14", "GetSize-differs-from-serialized-length|%s" % cons, dict(case, observed={"size": e.get("size"), "len": len(e["hex"]) // 2}))
            if len(res["samples"]) < 1:
                res["samples"].append({"desc": d["name"], "type": tid, "value": v, "cxx_hex": e["hex"]})
        # ---- parse side
        pairs = []
        meta = []
        for tid in types:
            res["types"] += 1 if fl == flavours[0] else 0
            for c in rustwl.type_constructs(m, tid):
                if fl == flavours[0]:
                    res["constructs"][c] = res["constructs"].get(c, 0) + 1
            es0 = 0
            for b, tag in rustwl.inputs_for(m, tid, encs[tid], random.Random("%s/%s/%s" % (d["gen_seed"], tid, "cxxin")), task["nb"]):
                key = (tid, bytes(b))
                if key not in exps:
                    is_struct = m.dm[tid]["kind"] == "struct_declaration"
                    exps[key] = struct_expectation(m, tid, b) if is_struct else rustwl.expectation(m, tid, b)
                    es0s[key] = bool(getattr(getattr(m, "last_state", None), "saw_element_size_0", False))
                e = exps[key]
                if es0s.get(key) or (e[0] == "abstain" and "element size 0" in str(e[1])):
                    # every such input takes the recorded `% element_size` crash (a driver restart plus a
                    # symbolized report each): three per type show it, the rest only cost time
                    es0 += 1
                    if es0 > 3:
                        res["inputs_skipped_element_size_0"] = res.get("inputs_skipped_element_size_0", 0) + 1
                        continue
                pairs.append((tid, b))
                meta.append(tag)
        outs = h.parse_many(pairs, fl)
        res["flavours"][fl] = res["flavours"].get(fl, 0) + len(outs)
        for (tid, b), tag, r in zip(pairs, meta, outs):
            res["evals"] += 1
            res["ops"]["parse"] = res["ops"].get("parse", 0) + 1
            tclass = tag.split(":")[0]
            res["classes"][tclass] = res["classes"].get(tclass, 0) + 1
            exp = exps[(tid, bytes(b))]
            where = cxx_context(m, tid, exp)
            case = {"type": tid, "op": "parse", "hex": b.hex(), "input_class": tag, "flavour": fl,
                    "model": exp[0] if exp[0] != "fault" else {"fault": exp[1], "at": exp[2]}}
            if "crash" in r:
                k = r["crash"].get("kind")
                res["crash_kinds"][k] = res["crash_kinds"].get(k, 0) + 1
                V("C14", "parse-crash:%s" % crash_sig(r["crash"], h.dir), dict(case, observed=_short_crash(r["crash"])))
                continue
            if "valid" not in r:
                continue
            if len(b):
                res["nontrivial"].add(common.h(d["name"], tid, b.hex(), fl))
            if exp[0] == "abstain":
                res["abstain"] += 1
                continue
            if r["valid"]:
                res["accepted"] += 1
            else:
                res["rejected"] += 1
            if fl != flavours[0]:
                continue  # value comparison once; the other flavour is for the sanitizer
            if exp[0] == "ok":
                if not r["valid"]:
                    V("C14", "rejects-valid|%s" % where, dict(case, observed=r))
                elif not match(r.get("value"), exp[1]):
                    V("C14", "wrong-field-values|%s" % rustwl._diff_where(m, tid, r.get("value") or {}, exp[1]),
                      dict(case, observed=r.get("value"), expected=exp[1]))
            else:
                if r["valid"]:
                    V("C14", "accepts-invalid:%s|%s" % (exp[1][0], where), dict(case, observed=r.get("value")))
    # ---- valgrind sample (definedness)
    nvg = task.get("valgrind", 0)
    if nvg and types:
        try:
            h.build(values, "plain")
            sample = [(t, b) for t in types for b, _ in rustwl.inputs_for(m, t, encs[t], random.Random("vg"), 6)][:nvg]
            outs = h.parse_many(sample, "plain", valgrind=True)
            res["valgrind_inputs"] = len(outs)
            for (tid, b), r in zip(sample, outs):
                res["evals"] += 1
                if "crash" in r and r["crash"].get("kind") == "valgrind":
                    V("C14", "valgrind:%s" % crash_sig(r["crash"], h.dir), {"type": tid, "hex": b.hex(), "observed": _short_crash(r["crash"])})
        except CX.CxxError:
            pass
    for rep in h.exit_reports[:2]:
        V("C14", "unattributed-sanitizer-report", {"observed": str(rep)[:2000]})
    return _fin(res)


def struct_expectation(m, tid, b):
    """Struct::Parse consumes what it needs and leaves the rest: trailing bytes are not a fault"""
    from ..refmodel import Abstain, DecodeFault, EncodeFault
    try:
        v, n = m.decode(tid, b, full=False)
    except DecodeFault as e:
        return ("fault", e.kinds, e.where, e.in_array)
    except (Abstain, RecursionError) as e:
        return ("abstain", str(e), None)
    try:
        canon = bytes(m.encode(tid, v).data).hex()
    except (EncodeFault, Abstain) as e:
        return ("abstain", str(e), None)
    return ("ok", v, canon)


def cxx_context(m, tid, exp):
    """construct context of a parse-side event, coarse enough to name one generator code path"""
    if exp[0] == "fault":
        if len(exp) > 3 and exp[3]:
            return "inside-array-element"
        if exp[1][0] == "constraint":
            return "child-constraint"
        if exp[1][0] == "trailing-in-array":
            return "element-shorter-than-its-slot"
        w = rustwl.where_of(m, exp)
        if exp[1][0] == "length" and w.endswith(":padded"):
            return "padded-array-larger-than-its-padding"
        return w
    return rustwl.where_of(m, exp)


def builder_context(m, tid):
    """structural context of a builder-side divergence for child packets"""
    d = m.dm[tid]
    if not d.get("parent_id"):
        return None
    chain = m.chain(d)
    for x in chain[:-1]:
        pl = A.get_payload(x)
        if pl is not None:
            idx = x["fields"].index(pl)
            if idx + 1 < len(x["fields"]):
                return "child-builder:ancestor-has-fields-after-payload"
    for x in chain[:-1]:
        if m.payload_size_field(x) is not None and any(A.get_payload(y) is not None for y in chain[1:]):
            return "child-builder:sized-ancestor-payload-with-nested-payload"
    return "child-builder"


def empty_elementsize_array(m, tid, v, depth=0):
    """does the value hold (at any depth) an empty array under an _elementsize_ field? The reference does
    not say what the field carries then (C++ writes the element's static size, Rust 0): abstain."""
    if not isinstance(v, dict) or tid not in m.dm or depth > 6:
        return False
    d = m.dm[tid]
    for x in m.chain(d):
        for fl in x.get("fields", ()):
            fid = fl.get("id")
            if fl["kind"] == "array_field" and m.elementsize_of(x, fid) is not None and v.get(fid) == []:
                return True
            t = fl.get("type_id") if fl["kind"] in ("typedef_field", "array_field") else None
            if t and m.kind(t) == "struct_declaration" and fid in v and v[fid] is not None:
                sub = v[fid] if isinstance(v[fid], list) else [v[fid]]
                if any(empty_elementsize_array(m, t, e, depth + 1) for e in sub):
                    return True
    return False


def _short_crash(c):
    return {"kind": c.get("kind"), "top_frame": c.get("top_frame"), "gen_frame": c.get("gen_frame"),
            "report": (c.get("report") or "")[:1800]}


def _fin(res):
    res["nontrivial"] = sorted(res["nontrivial"])
    return res
