"""C19 — Java backend: conformance and round trip."""
from __future__ import annotations

from . import common, javawl, rustwl
from .rust_checks import _selfcheck

RULE = ("Java-supported declarations of generator descriptions (the engine's static pre-filter leaves the rest to "
        "C10), both endiannesses: builder chains with literal arguments -> toBytes() vs the reference encoding and "
        "fromBytes(toBytes()).equals(built); reference encodings, prefixes, appended bytes, field-targeted mutants, bit "
        "flips and random strings -> T.fromBytes: accepted inputs must carry the reference field values (unsigned "
        "rendering), rejected ones must throw, a parent's bytes must dispatch to the child the constraint model "
        "selects (or to the Unknown fallback); every Throwable is reported as data under a per-call watchdog; "
        "non-trivial = distinct (description, type, bytes)")


def run(tier):
    check = common.Check("C19", tier)
    trusted = _selfcheck(check)
    p = javawl.tier_params(tier)
    descs = javawl.prepare(check, tier)
    results = common.pmap(javawl.worker, [{"di": i, "nv": p["nv"], "nb": p["nb"], "props": ["C19"]} for i in range(len(descs))],
                          nproc=8)
    tot = rustwl.merge(check, results, "C19")
    exc, disp = {}, {}
    for r in results:
        for k, v in r.get("exc", {}).items():
            exc[k] = exc.get(k, 0) + v
        for k, v in r.get("dispatch", {}).items():
            disp[k] = disp.get(k, 0) + v
    cov = {"evaluations": tot["evals"], "distinct_nontrivial": len(tot["nontrivial"]), "rule": RULE,
           "samples": tot["samples"][:4] or [{"note": "none"}], "descriptions": len(descs),
           "types_exercised": tot["types"], "ops": tot["ops"], "accepted_inputs": tot["accepted"],
           "rejected_inputs": tot["rejected"], "throwables_observed": exc, "dispatch_outcomes": disp,
           "input_classes": tot["classes"], "oracle_abstentions": tot["abstain"],
           "declarations_left_to_C10": sum(r.get("excluded_decls", 0) for r in results),
           "values_not_expressible_in_java": sum(r.get("skipped_values", 0) for r in results),
           "constructs": tot["constructs"], "trusted_base": [trusted]}
    return check.finish(cov, assumptions=["reference model (pv/refmodel.py), re-validated against the canonical vectors",
                                          "pdlc is built with --features java from the current tree"],
                        min_evaluations=100)
