"""C16 — static size annotations (analyzer::Schema) are sound."""
from __future__ import annotations

import copy
import random

from .. import ast as A
from .. import gen, render
from ..engines.driver import Driver, analyze_ok
from ..refmodel import Abstain, EncodeFault, Model
from ..values import ValueGen
from . import common

RULE = ("for every declaration and field of generator descriptions (all profiles, both endiannesses): the "
        "Schema queries (field_size, padded_size, decl_size, parent_size, payload_size, total_size, element_size, "
        "array_size) are read through the in-process driver and compared with (a) the model's independent "
        "delimiter analysis (static n / dynamic / unknown) and (b) the number of bits each field and each whole "
        "declaration actually occupies in the reference encodings of >=30 generated values; non-trivial = distinct "
        "(description, declaration, field) whose annotation was confronted with at least one encoding")


def to_model_file(analyzed):
    f = A.strip_loc(copy.deepcopy(analyzed))
    for d in f["declarations"]:
        for fl in d.get("fields", []):
            if fl["kind"] == "flag_field":
                fl["kind"] = "scalar_field"
                fl["width"] = 1
                fl.pop("optional_field_ids", None)
    return f


def cls_of(j):
    if isinstance(j, dict):
        return ("static", j["static"])
    return j


def worker(task):
    sd, profiles, nvals = task
    drv = Driver(timeout=60)
    res = {"evals": 0, "nontrivial": set(), "viol": [], "samples": [], "fields": 0, "decls": 0, "static_fields": 0,
           "static_decls": 0, "encodings": 0, "classes": {}, "arrays": 0}

    def V(sig, case):
        res["viol"].append(("C16|schema|" + sig, case))

    for prof in profiles:
        g = gen.generate(sd, prof)
        for endian in (A.LE, A.BE):
            f = A.with_endianness(g["file"], endian)
            text, _ = render.render(f)
            r = drv.request(text, ["analyze", "analyzed", "schema"])
            res["evals"] += 1
            if not analyze_ok(r) or not isinstance(r.get("schema"), dict) or "panic" in r.get("schema", {}):
                V("schema-unavailable|%s" % prof, {"text": text, "observed": str(r)[:600]})
                continue
            mf = to_model_file(r["analyzed"])
            m = Model(mf)
            schema = r["schema"]
            case0 = {"profile": prof, "gen_seed": sd, "endianness": endian, "text": text}
            rng = random.Random("%s/%s/c16" % (sd, prof))
            # (a) classification
            for d in mf["declarations"]:
                did = d["id"]
                sd_ = schema.get(did)
                if sd_ is None:
                    V("declaration-missing-from-schema", dict(case0, decl=did))
                    continue
                res["decls"] += 1
                if d["kind"] in ("packet_declaration", "struct_declaration"):
                    own, pl = m.class_decl_own(d)
                    want = {"decl_size": own, "payload_size": pl, "total_size": m.class_decl_total(did)}
                    par = ("static", 0)
                    if d.get("parent_id"):
                        par = m._sum_class([m.class_decl_own(x)[0] for x in m.chain(d)[:-1]])
                    want["parent_size"] = par
                    for k, w in want.items():
                        got = cls_of(sd_[k])
                        if got != w:
                            V("%s-misclassified:%s-not-%s|%s" % (k, _n(got), _n(w), d["kind"].split("_")[0]),
                              dict(case0, decl=did, observed=got, expected=w))
                    if isinstance(want["total_size"], tuple):
                        res["static_decls"] += 1
                    for idx, fl in enumerate(d["fields"]):
                        res["fields"] += 1
                        sf = sd_["fields"][idx]
                        got = cls_of(sf["field_size"])
                        w = m.class_field(d, idx)
                        key = _n(w)
                        res["classes"][key] = res["classes"].get(key, 0) + 1
                        if got != w:
                            V("field_size-misclassified:%s-not-%s|%s" % (_n(got), _n(w), _fk(m, fl)),
                              dict(case0, decl=did, field=idx, observed=got, expected=w))
                        pad = m.padding_after(d, idx)
                        wpad = 8 * pad if pad is not None else None
                        if sf["padded_size"] != wpad:
                            V("padded_size-wrong|%s" % _fk(m, fl), dict(case0, decl=did, field=idx,
                                                                       observed=sf["padded_size"], expected=wpad))
                        if isinstance(w, tuple):
                            res["static_fields"] += 1
                        if fl["kind"] == "array_field":
                            res["arrays"] += 1
                            wa = ({"static_count": fl["size"]} if fl.get("size") is not None else
                                  "dynamic_count" if (m.array_target(d, fl["id"]) or {}).get("kind") == "count_field" else
                                  "dynamic_size" if (m.array_target(d, fl["id"]) or {}).get("kind") == "size_field" else "unknown")
                            if sf.get("array_size") != wa:
                                V("array_size-misclassified|%s" % _fk(m, fl), dict(case0, decl=did, field=idx,
                                                                                  observed=sf.get("array_size"), expected=wa))
                            if fl.get("width") is not None:
                                we = {"static": fl["width"] // 8}
                            else:
                                et = m.class_decl_total(fl["type_id"])
                                we = ({"static": et[1] // 8} if isinstance(et, tuple) else
                                      "dynamic" if m.elementsize_of(d, fl["id"]) is not None else "unknown")
                            if sf.get("element_size") != we:
                                V("element_size-misclassified|%s" % _fk(m, fl), dict(case0, decl=did, field=idx,
                                                                                    observed=sf.get("element_size"), expected=we))
            # (b) confront with encodings
            for d in mf["declarations"]:
                if d["kind"] not in ("packet_declaration", "struct_declaration"):
                    continue
                did = d["id"]
                vg = ValueGen(m, rng)
                vals = vg.valid_values(did, nvals)
                tot = cls_of(schema[did]["total_size"])
                for v, enc in vals:
                    res["encodings"] += 1
                    res["evals"] += 1
                    if isinstance(tot, tuple) and len(enc.data) * 8 != tot[1]:
                        V("total_size-static-but-encoding-differs|%s" % d["kind"].split("_")[0],
                          dict(case0, decl=did, value=v, observed_bits=len(enc.data) * 8, annotated=tot[1]))
                    for (xd, idx, bits, padded) in enc.ext:
                        sf = schema[xd]["fields"][idx]
                        fs = cls_of(sf["field_size"])
                        res["nontrivial"].add(common.h(sd, prof, endian, xd, idx))
                        fl = m.dm[xd]["fields"][idx]
                        if isinstance(fs, tuple) and fs[1] != bits:
                            V("field_size-static-but-encoding-differs|%s" % _fk(m, fl),
                              dict(case0, decl=xd, field=idx, value=v, observed_bits=bits, annotated=fs[1]))
                        if sf["padded_size"] is not None and sf["padded_size"] != padded:
                            V("padded_size-but-encoding-differs|%s" % _fk(m, fl),
                              dict(case0, decl=xd, field=idx, value=v, observed_bits=padded, annotated=sf["padded_size"]))
                if vals and len(res["samples"]) < 2 and isinstance(tot, tuple):
                    res["samples"].append({"decl": did, "total_size_bits": tot[1], "encodings_checked": len(vals),
                                           "example_hex": bytes(vals[0][1].data).hex()})
    drv.close()
    res["nontrivial"] = sorted(res["nontrivial"])
    return res


def _n(c):
    return "static" if isinstance(c, tuple) else str(c)


def _fk(m, fl):
    k = fl["kind"].replace("_field", "")
    if fl.get("cond"):
        return "optional-" + k
    if k == "typedef":
        return "typedef-" + m.kind(fl["type_id"]).split("_")[0]
    if k == "array":
        return "array-" + ("static" if fl.get("size") is not None else "dynamic")
    return k


def run(tier):
    check = common.Check("C16", tier)
    nseeds = 96 if tier == "thorough" else 16
    nvals = 50 if tier == "thorough" else 30
    tasks = [("%d.%d" % (check.seed, j), gen.PROFILES, nvals) for j in range(nseeds)]
    results = common.pmap(worker, tasks)
    tot = {"evals": 0, "nontrivial": set(), "samples": [], "classes": {}}
    agg = {k: 0 for k in ("fields", "decls", "static_fields", "static_decls", "encodings", "arrays")}
    for r in results:
        tot["evals"] += r["evals"]
        tot["nontrivial"].update(r["nontrivial"])
        for k in agg:
            agg[k] += r[k]
        for a, b in r["classes"].items():
            tot["classes"][a] = tot["classes"].get(a, 0) + b
        if len(tot["samples"]) < 3:
            tot["samples"].extend(r["samples"][:1])
        check.add_violations(r["viol"])
    cov = {"evaluations": tot["evals"], "distinct_nontrivial": len(tot["nontrivial"]), "rule": RULE,
           "samples": tot["samples"] or [{"note": "none"}], "fields_annotated": agg["fields"],
           "declarations_annotated": agg["decls"], "fields_static": agg["static_fields"],
           "declarations_static": agg["static_decls"], "encodings_measured": agg["encodings"],
           "array_fields_classified": agg["arrays"], "field_classes": tot["classes"],
           "description_shapes": nseeds * len(gen.PROFILES) * 2}
    return check.finish(cov, assumptions=["encoding lengths come from the reference model's encoder (validated against the real Rust encoder by C03)",
                                          "the model's delimiter analysis follows the property's wording: dynamic = size field / count field / condition flag / unsized custom field"],
                        min_evaluations=200)
