"""C14 — C++ backend: conformance and sanitizer-clean validation of arbitrary bytes."""
from __future__ import annotations

from . import common, cxxwl, rustwl
from .rust_checks import _selfcheck

RULE = ("C++-supported generator descriptions (no custom fields; declarations whose header the backend cannot "
        "produce are left to C10), both endiannesses; a driver generated per description is compiled with clang++-14 "
        "-fsanitize=address,undefined -fno-sanitize-recover=all (and a second time with -DNDEBUG, since the runtime's "
        "bounds are asserts): builder/struct construction from literal values -> Serialize()/GetSize() vs the "
        "reference encoding; reference encodings, all prefixes, appended bytes, field-targeted mutants, bit flips and "
        "random strings -> View::Create / Struct::Parse, IsValid() and every getter vs the reference decoder; any "
        "sanitizer report, failed assert, uncaught exception, signal or hang is attributed to its input; thorough adds a "
        "valgrind memcheck sample on an uninstrumented build; non-trivial = distinct (description, type, bytes, build)")


def run(tier):
    check = common.Check("C14", tier)
    trusted = _selfcheck(check)
    p = cxxwl.tier_params(tier)
    descs = cxxwl.prepare(check, tier)
    def flavours(d):
        # quick: the (large) matrix descriptions are built once each - the little-endian twin with the
        # asserts in, the big-endian twin with -DNDEBUG; everything else, and thorough, gets both builds
        if tier == "quick" and d["profile"] == "matrix":
            from .. import ast as A
            return ["asan"] if A.endianness(d["file"]) == A.LE else ["asan-ndebug"]
        return ["asan", "asan-ndebug"]
    results = common.pmap(cxxwl.worker, [{"di": i, "nv": p["nv"], "nb": p["nb"], "props": ["C14"], "valgrind": p["valgrind"],
                                          "flavours": flavours(descs[i])} for i in range(len(descs))], nproc=12)
    tot = rustwl.merge(check, results, "C14")
    ck, fl = {}, {}
    for r in results:
        for k, v in r.get("crash_kinds", {}).items():
            ck[k] = ck.get(k, 0) + v
        for k, v in r.get("flavours", {}).items():
            fl[k] = fl.get(k, 0) + v
    cov = {"evaluations": tot["evals"], "distinct_nontrivial": len(tot["nontrivial"]), "rule": RULE,
           "samples": tot["samples"][:4] or [{"note": "none"}], "descriptions": len(descs),
           "types_exercised": tot["types"], "ops": tot["ops"], "inputs_per_build_flavour": fl,
           "accepted_inputs": tot["accepted"], "rejected_inputs": tot["rejected"], "input_classes": tot["classes"],
           "sanitizer_or_crash_reports_by_kind": ck, "oracle_abstentions": tot["abstain"],
           "declarations_left_to_C10": sum(r.get("excluded_decls", 0) for r in results),
           "valgrind_inputs": sum(r.get("valgrind_inputs", 0) for r in results),
           "constructs": tot["constructs"], "trusted_base": [trusted]}
    return check.finish(cov, assumptions=["reference model (pv/refmodel.py), re-validated against the canonical vectors",
                                          "a clean ASan/UBSan/memcheck run is not memory safety: red-zone tools miss intra-object and non-adjacent overflows",
                                          "only in-range builder arguments are compared (the C++ builders mask out-of-range scalars)"],
                        min_evaluations=100)
