"""Workloads over the generated-Rust harness shared by C01-C06, C15, C17, C18.

Each worker handles one description: it generates values / byte strings with the reference
model, drives the harness process and returns observations already judged per property
(the judges are pure functions of (expectation, response))."""
from __future__ import annotations

import json
import random
import re

from .. import ast as A
from .. import corpus, mutate
from ..engines.rs import RustCorpus, cleanup_old
from ..refmodel import (Abstain, DecodeFault, EncodeFault, Model, RUST_DECODE_VARIANT,
                        RUST_ENCODE_VARIANT, swap_endianness)
from ..values import ValueGen
from . import common

CAP = 1 << 31          # single allocation cap (bytes): abort marker beyond this
ALLOC_BASE = 1 << 20   # peak-live envelope: 1 MiB + 256 * len(input)
ALLOC_PER_BYTE = 256

_RC = None  # RustCorpus, set in the parent before forking


def tier_params(tier):
    if tier == "thorough":
        return {"n_per_profile": 10, "nv": 120, "nb": 900}
    return {"n_per_profile": 2, "nv": 24, "nb": 220}


def prepare(check, tier, flavours=("dev",), profiles=None, n_per_profile=None):
    """Generate the corpus for (seed, tier), run the tree's Rust backend, build harnesses."""
    global _RC
    p = tier_params(tier)
    n = n_per_profile or p["n_per_profile"]
    from .. import gen
    descs = [d for d in corpus.descriptions(check.seed, n, profiles) if "rust" in gen.supported_by(d["features"])]
    import os
    key = "s%d-%s-%s" % (check.seed, tier, common.h(*(profiles or ["all"]), n, os.environ.get("VERIF_PROFILES", "")))
    rc = RustCorpus(key, descs)
    rc.generate()
    for fl in flavours:
        rc.build(fl)
    cleanup_old(keep=4)
    _RC = rc
    if rc.dropped:
        check.notes.append({"dropped_descriptions": {k: v.get("stage") for k, v in rc.dropped.items()}})
    return rc


def types_of(f):
    out = []
    for d in f["declarations"]:
        if d["kind"] in ("packet_declaration", "struct_declaration"):
            out.append(d["id"])
        elif d["kind"] == "custom_field_declaration" and d.get("width") is not None:
            out.append(d["id"])
    return out


# ---------------------------------------------------------------- signatures
def norm_msg(msg):
    msg = re.sub(r"\d+", "N", msg or "")
    msg = re.sub(r"\s+", " ", msg)
    return msg[:90]


def wclass(w):
    if w is None:
        return ""
    if w >= 64:
        return "w64"
    if w > 32:
        return "w33-63"
    if w % 8:
        return "wfrac"
    return "w%d" % w if w in (8, 16, 24, 32) else "wle32"


def describe_field(m, where):
    """'Decl.field' (as reported by the model) -> construct descriptor."""
    if not where:
        return "whole-input"
    if "." not in where:
        d0 = m.dm.get(where)
        return (d0["kind"].split("_")[0] + "-body") if d0 else "?"
    did, fid = where.split(".", 1)
    reason = fid.split(" !", 1)[1] if " !" in fid else None
    fid = fid.split(" ")[0].split("[")[0]
    d = m.dm.get(did)
    if d is None or "fields" not in d:
        return "?"
    for idx, fl in enumerate(d["fields"]):
        if A.field_id(fl) == fid or fl["kind"] == fid:
            if reason:
                # the model names the root cause itself: key on it, not on the shape it occurred in
                return "%s:%s" % (reason, "payload" if fl["kind"] in ("payload_field", "body_field") else fl["kind"].split("_")[0])
            return describe(m, d, idx, fl)
    return "bitfield-chunk"


def describe(m, d, idx, fl):
    k = fl["kind"]
    if fl.get("cond") is not None:
        if k == "scalar_field":
            return "optional:scalar"
        tk = m.kind(fl["type_id"])
        return "optional:" + ("enum" if tk == "enum_declaration" else "struct")
    if k == "array_field":
        if fl.get("width") is not None:
            el = "scalar%d" % fl["width"]
        else:
            tk = m.kind(fl["type_id"])
            if tk == "enum_declaration":
                el = "enum"
            elif tk == "custom_field_declaration":
                el = "custom"
            else:
                el = "struct-static" if m.static_bits_decl(fl["type_id"]) is not None else "struct-dynamic"
        tgt = m.array_target(d, fl["id"])
        if fl.get("size") is not None:
            shape = "static"
        elif tgt is None:
            shape = "unknown"
        else:
            shape = tgt["kind"].split("_")[0] + ":" + wclass(tgt["width"])
        s = "array:%s:%s" % (el, shape)
        if fl.get("size_modifier"):
            s += ":modifier"
        if m.elementsize_of(d, fl["id"]) is not None:
            s += ":elementsize"
        if m.padding_after(d, idx) is not None:
            s += ":padded"
        return s
    if k in ("payload_field", "body_field"):
        sf = m.payload_size_field(d)
        return "payload:" + ("size:" + wclass(sf["width"]) if sf else "unsized") + \
               (":modifier" if fl.get("size_modifier") else "")
    if k == "typedef_field":
        tk = m.kind(fl["type_id"])
        return "typedef:" + tk.split("_")[0]
    return k.replace("_field", "")


def struct_tree_field(m, tid, derived_only=True):
    """does the type (own fields, ancestors, nested structs) hold a typedef / array field whose struct type
    is part of an inheritance tree (derived; or, with derived_only=False, also a parent)? The Python and
    Java generators have one recorded defect each on exactly this code path."""
    seen = set()

    def scan(x, depth=0):
        if x["id"] in seen or depth > 5:
            return False
        seen.add(x["id"])
        for y in m.chain(x):
            for fl in y.get("fields", ()):
                t = fl.get("type_id") if fl["kind"] in ("typedef_field", "array_field") else None
                if t and m.kind(t) == "struct_declaration":
                    td = m.dm[t]
                    if td.get("parent_id") or (not derived_only and A.children_of(m.file, t)):
                        return True
                    if scan(td, depth + 1):
                        return True
        return False
    if scan(m.dm[tid]):
        return True
    # a parent's parser runs its children's
    return any(scan(c if isinstance(c, dict) else m.dm[c]) for c in m.descendants(tid))


def greedy_struct_field_not_last(m, tid, _depth=0):
    """does the type hold (own fields, ancestors, nested structs) a field or element whose struct type is
    *derived*, has a constant total size, and has an ancestor whose payload carries no size field - anywhere
    but as the very last thing of the encoding? (Array elements count: every element but the last is followed
    by something.)"""
    if _depth > 5:
        return False
    for x in m.chain(m.dm[tid]):
        fs = x.get("fields", ())
        for idx, fl in enumerate(fs):
            t = fl.get("type_id") if fl["kind"] in ("typedef_field", "array_field") else None
            if not t or m.kind(t) != "struct_declaration":
                continue
            td = m.dm[t]
            if td.get("parent_id") and m.static_bits_decl(t) is not None and \
                    any(A.get_payload(a) is not None and m.payload_size_field(a) is None for a in m.chain(td)[:-1]):
                last = idx == len(fs) - 1 and x is m.dm[tid] and not m.dm[tid].get("parent_id")
                if fl["kind"] == "array_field" or not last:
                    return True
            if greedy_struct_field_not_last(m, t, _depth + 1):
                return True
    return False


def shape_of_tree(m, pid):
    """depth / constraint kinds / payload sizing of the inheritance tree below pid"""
    def dep(x):
        return 1 + max([dep(k["id"]) for k in A.children_of(m.file, x)], default=0)
    kinds = set()
    for c in m.descendants(pid):
        c = c if isinstance(c, dict) else m.dm[c]
        for cc in c.get("constraints", ()):
            kinds.add("enum" if cc.get("tag_id") else "scalar")
    return "depth%d:%s:%s" % (dep(pid) - 1, "+".join(sorted(kinds)) or "unconstrained",
                              "sized" if m.payload_size_field(m.dm[pid]) else "unsized")


def type_constructs(m, tid):
    """sorted set of construct descriptors in a type (own + ancestors + nested structs, 1 level)."""
    d = m.dm[tid]
    out = set()
    if "fields" not in d:
        return ["custom"]
    for x in m.chain(d):
        for idx, fl in enumerate(x["fields"]):
            if m.is_bitfield(fl):
                continue
            out.add(describe(m, x, idx, fl))
    return sorted(out)


# ---------------------------------------------------------------- enc side
def enc_worker(task):
    """task: {'di': index into corpus.live, 'flavour', 'nv', 'props': [...], 'bad': bool}"""
    rc = _RC
    d = rc.live[task["di"]]
    props = set(task["props"])
    m = Model(d["file"])
    rng = random.Random("%s/%s/enc" % (d["gen_seed"], d["profile"]))
    cl = rc.client(task["flavour"])
    res = {"evals": 0, "nontrivial": set(), "viol": [], "samples": [], "abstain": 0, "ops": {},
           "variants": {}, "constructs": {}, "types": 0, "bad_tags": {}}
    big = A.endianness(d["file"]) == A.BE

    def V(pid, sig, case):
        if pid in props:
            case.update({"desc": d["name"], "profile": d["profile"], "gen_seed": d["gen_seed"],
                         "endianness": A.endianness(d["file"]), "flavour": task["flavour"],
                         "pdl": d["text"]})
            res["viol"].append((pid, "%s|rust|%s" % (pid, sig), case))

    for tid in types_of(m.file):
        res["types"] += 1
        vg = ValueGen(m, rng)
        vals = vg.valid_values(tid, task["nv"])
        if d["profile"] == "small" and task.get("exhaustive_small"):
            allv = all_values_small(m, tid)
            if allv is not None:
                vals = allv
                res["exhaustive_types"] = res.get("exhaustive_types", 0) + 1
        for c in type_constructs(m, tid):
            res["constructs"][c] = res["constructs"].get(c, 0) + 1
        for v, enc in vals:
            want = bytes(enc.data).hex()
            r = cl.call({"d": d["name"], "t": tid, "op": "enc", "value": v, "cap": CAP})
            res["evals"] += 1
            res["ops"]["enc"] = res["ops"].get("enc", 0) + 1
            case = {"type": tid, "op": "enc", "value": v, "expected_hex": want}
            cons = ",".join(type_constructs(m, tid))[:120]
            if "crash" in r or "timeout" in r:
                V("C05", "crash-or-timeout|%s" % cons, dict(case, observed=_short(r)))
                V("C02", "crash-or-timeout|%s" % cons, dict(case, observed=_short(r)))
                continue
            if "panic" in r:
                sig = "panic:%s|%s" % (norm_msg(r["panic"]["msg"]), cons)
                V("C05", sig, dict(case, observed=r["panic"]))
                V("C02", sig, dict(case, observed=r["panic"]))
                continue
            if "deser_err" in r:
                V("C02", "valid-value-refused-by-deserializer|%s" % cons, dict(case, observed=r["deser_err"]))
                continue
            tv = r.get("to_vec", {})
            if any(x for x in v.values() if x not in (0, None, [], {})) if isinstance(v, dict) else v:
                res["nontrivial"].add(common.h(d["name"], tid, want))
            if len(res["samples"]) < 2:
                res["samples"].append({"desc": d["name"], "type": tid, "value": v, "rust_hex": tv.get("ok"),
                                       "model_hex": want})
            if "ok" not in tv:
                sig = "in-range-value-refused:%s|%s" % (tv.get("err"), cons)
                V("C02", sig, dict(case, observed=tv))
                V("C05", sig, dict(case, observed=tv))
            else:
                got = tv["ok"]
                if got != want:
                    off = _first_diff(bytes.fromhex(got), bytes(enc.data))
                    V("C03", "wrong-bytes|%s" % _locate(m, enc, off), dict(case, observed=got, first_diff=off))
                if r.get("encoded_len") != len(got) // 2:
                    V("C05", "encoded_len-mismatch|%s" % cons,
                      dict(case, observed={"encoded_len": r.get("encoded_len"), "written": len(got) // 2}))
                rt = r.get("roundtrip", {})
                if "panic" in rt:
                    w2 = call_site(rc, d, rt["panic"]["loc"]) or where_of(m, expectation(m, tid, bytes.fromhex(got)))
                    V("C02", "roundtrip-decode-panics:%s|%s" % (norm_msg(rt["panic"]["msg"]), w2),
                      dict(case, observed=rt["panic"]))
                elif "ok" not in rt:
                    ctx2 = cons
                    if greedy_struct_field_not_last(m, tid):
                        # recorded root cause: the field's own decoder is the root struct's, whose unsized
                        # payload takes the rest of the buffer although the derived struct has a constant size
                        ctx2 = "derived-struct-with-unsized-root-payload-as-field-before-other-fields"
                    V("C02", "roundtrip-decode-failed:%s|%s" % (rt.get("err"), ctx2), dict(case, observed=rt))
                elif rt["ok"] != v or not rt.get("eq"):
                    V("C02", "roundtrip-differs|%s" % cons, dict(case, observed=rt))
            # C02: decode as the root ancestor and specialize back down
            if "C02" in props and "ok" in tv and m.dm[tid].get("parent_id") and tv["ok"] == want:
                ancestor_chain(m, d, cl, tid, v, tv["ok"], V, res, case)
            # C18: all encoding entry points agree
            a = r.get("to_vec", {})
            for other in ("to_bytes", "into_vec", "into_bytesmut"):
                b = r.get(other, {})
                if (a.get("ok"), a.get("err")) != (b.get("ok"), b.get("err")):
                    V("C18", "encode-entry-points-disagree:%s" % other, dict(case, observed={"to_vec": a, other: b}))
                if other != "to_bytes" and b.get("prefix_kept") is False:
                    V("C18", "encode-disturbs-existing-buffer:%s" % other, dict(case, observed=b))
            # C17: twin comparison happens in the parent (needs the twin's bytes)
            if "C17" in props and "ok" in tv:
                res.setdefault("c17", []).append((tid, json.dumps(v, sort_keys=True), tv["ok"],
                                                  [(s.off, s.len) for s in enc.segs]))
        if not task.get("bad"):
            continue
        # out-of-range mutants
        for base, _ in vals[:max(2, task["nv"] // 6)]:
            for bv, tag in vg.bad_values(tid, base, limit=10):
                try:
                    m.encode(tid, bv)
                    continue  # mutation did not make it faulty (e.g. width == backing)
                except Abstain:
                    res["abstain"] += 1
                    continue
                except EncodeFault as e:
                    kinds = e.kinds
                r = cl.call({"d": d["name"], "t": tid, "op": "enc", "value": bv, "cap": CAP})
                res["evals"] += 1
                res["ops"]["enc-bad"] = res["ops"].get("enc-bad", 0) + 1
                res["bad_tags"][tag.split(":")[0]] = res["bad_tags"].get(tag.split(":")[0], 0) + 1
                res["nontrivial"].add(common.h(d["name"], tid, tag, json.dumps(bv, sort_keys=True)[:2000]))
                case = {"type": tid, "op": "enc", "value": bv, "mutation": tag, "model_faults": kinds}
                ctag = _tag_class(tag)
                if "crash" in r or "timeout" in r:
                    V("C05", "crash-or-timeout|%s" % ctag, dict(case, observed=_short(r)))
                    continue
                if "panic" in r:
                    V("C05", "panic:%s|%s" % (norm_msg(r["panic"]["msg"]), ctag), dict(case, observed=r["panic"]))
                    continue
                if kinds == ["invalid-value"]:
                    if "deser_err" not in r:
                        V("C05", "unconstructible-value-accepted|%s" % ctag, dict(case, observed=_short(r)))
                    else:
                        res["variants"]["deser_err"] = res["variants"].get("deser_err", 0) + 1
                    continue
                if "deser_err" in r:
                    continue  # value shape not expressible (e.g. > static array length)
                tv = r.get("to_vec", {})
                if "ok" in tv:
                    V("C05", "out-of-range-value-encoded|%s" % ctag, dict(case, observed=tv["ok"]))
                    if r.get("encoded_len") != len(tv["ok"]) // 2:
                        V("C05", "encoded_len-mismatch|%s" % ctag, dict(case, observed=_short(r)))
                else:
                    res["variants"][tv.get("err")] = res["variants"].get(tv.get("err"), 0) + 1
                    ks = set(kinds)
                    if len(ks) == 1:
                        wantv = RUST_ENCODE_VARIANT.get(kinds[0])
                        if wantv and tv.get("err") != wantv:
                            V("C05", "wrong-error-variant:%s-for-%s|%s" % (tv.get("err"), kinds[0], ctag),
                              dict(case, observed=tv))
                # C18 on failing encodes too
                a = r.get("to_vec", {})
                for other in ("to_bytes", "into_vec", "into_bytesmut"):
                    b = r.get(other, {})
                    if (a.get("ok"), a.get("err")) != (b.get("ok"), b.get("err")):
                        V("C18", "encode-entry-points-disagree:%s" % other, dict(case, observed={"to_vec": a, other: b}))
    cl.close()
    res["nontrivial"] = sorted(res["nontrivial"])
    return res


def all_values_small(m, tid, limit=70000):
    """every value of a type made of scalar / enum fields only (<= limit combinations), with
    its reference encoding; None when the type does not qualify."""
    import itertools
    d = m.dm[tid]
    if d["kind"] not in ("packet_declaration", "struct_declaration") or d.get("parent_id"):
        return None
    doms = []
    ids = []
    for fl, owner in m.data_fields(d):
        if fl.get("cond") is not None:
            return None
        if fl["kind"] == "scalar_field":
            if fl["width"] > 16:
                return None
            doms.append(range(1 << fl["width"]))
        elif fl["kind"] == "typedef_field" and m.kind(fl["type_id"]) == "enum_declaration":
            e = m.enum(fl["type_id"])
            if e.width > 16:
                return None
            doms.append([x for x in range(1 << e.width) if e.valid(x)])
        else:
            return None
        ids.append(fl["id"])
    if A.get_payload(d) is not None:
        return None
    n = 1
    for dom in doms:
        n *= len(dom)
        if n > limit:
            return None
    out = []
    for combo in itertools.product(*doms):
        v = dict(zip(ids, combo))
        try:
            out.append((v, m.encode(tid, v)))
        except (EncodeFault, Abstain):
            return None
    return out


def ancestor_chain(m, d, cl, tid, v, hexbytes, V, res, case):
    """C02 second sentence: the same bytes decoded as the root ancestor and specialized down
    the chain yield v again."""
    chain = [x["id"] for x in m.chain(m.dm[tid])]
    root = chain[0]
    r = cl.call({"d": d["name"], "t": root, "op": "dec", "hex": hexbytes, "cap": CAP})
    res["evals"] += 1
    res["ops"]["dec-ancestor"] = res["ops"].get("dec-ancestor", 0) + 1
    df = r.get("decode_full", {})
    if "ok" not in df:
        V("C02", "ancestor-rejects-child-encoding:%s" % df.get("err", "panic"), dict(case, ancestor=root, observed=_short(r)))
        return
    cur = df["ok"]
    for k in range(len(chain) - 1):
        try:
            outcomes, expected, widened = m.specialize(chain[k], cur)
        except Abstain:
            return
        r = cl.call({"d": d["name"], "t": chain[k], "op": "specialize", "value": cur, "cap": CAP})
        res["evals"] += 1
        res["ops"]["specialize"] = res["ops"].get("specialize", 0) + 1
        if "err" in r or "panic" in r:
            got = ("err",)
        elif r.get("child") is None:
            got = ("none",)
        else:
            got = ("child", r["child"])
        if got not in outcomes:
            V("C02", "specialize-chain-breaks:%s-at-%s" % (got[0], "depth%d" % k),
              dict(case, ancestor=chain[k], observed=_short(r), admissible=sorted(map(list, outcomes))))
            return
        if got != ("child", chain[k + 1]):
            res["open_chain"] = res.get("open_chain", 0) + 1
            return  # admissible but not on this chain (unconstrained alias): nothing to compare
        cur = r["value"]
    if cur != v:
        V("C02", "specialized-value-differs", dict(case, observed=cur))
    else:
        res["chains_ok"] = res.get("chains_ok", 0) + 1


def _tag_class(tag):
    parts = tag.split(":")
    if parts[0] in ("count", "size", "payload-size"):
        return "%s:%s" % (parts[0], wclass(int(parts[1])))
    if parts[0] == "scalar":
        w = int(parts[1])
        return "scalar:%s%s" % ("w%d" % w if w % 8 == 0 else "wfrac", ":optional" if "optional" in parts else "")
    if parts[0] == "array-elem":
        return "array-elem:w%s" % parts[1]
    return parts[0] + (":" + parts[1] if len(parts) > 1 else "")


def _short(r):
    s = json.dumps(r, default=str)
    return s if len(s) < 1500 else s[:1500] + "..."


def _first_diff(a, b):
    for i in range(min(len(a), len(b))):
        if a[i] != b[i]:
            return i
    return min(len(a), len(b))


def _locate(m, enc, off):
    """what sits at byte `off` of the reference encoding"""
    best = None
    for (what, path, o, sh, w, cb) in enc.marks:
        if o <= off < o + cb:
            best = "%s:%s" % (what, wclass(w))
            break
    if best is None:
        for s in enc.segs:
            if s.off <= off < s.off + s.len:
                best = "%s:%dB" % (s.what, s.len)
                break
    return best or "raw-bytes-or-length"


# ---------------------------------------------------------------- dec side
def inputs_for(m, tid, vals, rng, nb, small=False):
    """-> list of (bytes, tag), de-duplicated, at most nb (plus exhaustive short strings for
    small descriptions)."""
    big = m.big
    out = []
    seen = set()

    def add(items):
        for b, tag in items:
            if len(b) > 4096 or b in seen:
                continue
            seen.add(b)
            out.append((b, tag))

    encs = [e for _, e in vals]
    add((bytes(e.data), "valid") for e in encs)
    for e in encs[:6]:
        add(mutate.field_targeted(e, big, rng=rng))
    for e in encs[:4]:
        add(mutate.prefixes(bytes(e.data), rng=rng))
        add(mutate.extended(bytes(e.data), rng))
    for e in encs[:8]:
        add(mutate.bitflips(bytes(e.data), rng))
    add(mutate.random_strings(rng, 10))
    for e in encs[6:]:
        add(mutate.field_targeted(e, big, per_mark=3, rng=rng))
    if len(out) > nb:
        head = [x for x in out if x[1] == "valid"][:nb // 4]
        rest = [x for x in out if x not in head]
        rng.shuffle(rest)
        out = head + rest[:nb - len(head)]
    if small:
        add(mutate.all_short(2))
    return out


def expectation(m, tid, b):
    """-> ('ok', value, canonical hex) | ('fault', kinds, where) | ('abstain', reason)"""
    try:
        v, n = m.decode(tid, b)
    except DecodeFault as e:
        return ("fault", e.kinds, e.where, e.in_array)
    except Abstain as e:
        return ("abstain", str(e), None)
    except RecursionError:
        return ("abstain", "recursion", None)
    try:
        canon = bytes(m.encode(tid, v).data).hex()
    except (EncodeFault, Abstain) as e:
        return ("abstain", "decoded value not re-encodable by the model: %s" % e, None)
    return ("ok", v, canon)


_SRC_CACHE = {}
_KEEP = None


def _keep_words():
    """identifiers that belong to the backend's code templates (not to the description)"""
    global _KEEP
    if _KEEP is None:
        words = set()
        import os
        from ..engines import build
        base = os.path.join(build.REPO, "pdl-compiler", "src", "backends", "rust")
        for fn in ("decoder.rs", "encoder.rs", "mod.rs", "types.rs", "preamble.rs"):
            try:
                words.update(re.findall(r"[A-Za-z_][A-Za-z0-9_]*", open(os.path.join(base, fn)).read()))
            except OSError:
                pass
        _KEEP = words
    return _KEEP


def call_site(rc, d, loc):
    """Normalized text of the generated source line a panic was raised at (call-site identity
    that does not depend on names or line numbers of a particular description)."""
    mm = re.match(r"(b\d+/src/d\d+_gen\.rs):(\d+)$", loc or "")
    if not mm:
        return None
    import os
    path = os.path.join(rc.dir, mm.group(1))
    lines = _SRC_CACHE.get(path)
    if lines is None:
        try:
            lines = open(path).read().split("\n")
        except OSError:
            return None
        _SRC_CACHE[path] = lines
    n = int(mm.group(2)) - 1
    if not (0 <= n < len(lines)):
        return None
    text = lines[n].strip()
    keep = _keep_words()

    def sub(mo):
        w = mo.group(0)
        if w.endswith("_element_size"):
            return "ID_element_size"
        for suf in ("_size", "_count"):
            if w.endswith(suf) and w[:-len(suf)] not in keep:
                return "ID" + suf
        if w in keep and not re.fullmatch(r"f\d+", w):
            return w
        return "ID"
    text = re.sub(r"[A-Za-z_][A-Za-z0-9_]*", sub, text)
    text = re.sub(r"\d+", "N", text)
    return "at:" + re.sub(r"\s+", " ", text)[:100]


def wrap_context(m, exp):
    """release-build face of the unchecked `count * element width` guard: the product can exceed
    2^64 when the count field is wide enough, the guard wraps and the element reads run off the end"""
    if exp[0] != "fault" or not exp[2] or "." not in exp[2]:
        return None
    did, fid = exp[2].split(".", 1)
    d = m.dm.get(did)
    if not d:
        return None
    for fl in d.get("fields", ()):
        if fl["kind"] == "array_field" and fl["id"] == fid.split(" ")[0]:
            tgt = m.array_target(d, fl["id"])
            if tgt is None or tgt["kind"] != "count_field":
                return None
            if fl.get("width") is not None:
                ew = fl["width"] // 8
            else:
                sb = m.static_bits_decl(fl["type_id"])
                ew = sb // 8 if sb else None
            if ew and ew > 1 and tgt["width"] + (ew - 1).bit_length() > 64:
                return "count-times-element-width-can-wrap"
    return None


def where_of(m, exp):
    """construct context of a decode-side event, from the model's view of the same input"""
    if exp[0] == "fault":
        return describe_field(m, exp[2])
    if exp[0] == "abstain":
        return "abstain:" + re.sub(r"\d+", "N", exp[1])[:40].replace(" ", "-")
    return "accepted-input"


def dec_worker(task):
    rc = _RC
    d = rc.live[task["di"]]
    props = set(task["props"])
    m = Model(d["file"])
    rng = random.Random("%s/%s/dec" % (d["gen_seed"], d["profile"]))
    cl = rc.client(task["flavour"])
    res = {"evals": 0, "nontrivial": set(), "viol": [], "samples": [], "abstain": 0, "ops": {},
           "variants": {}, "constructs": {}, "types": 0, "accepted": 0, "rejected": 0, "classes": {},
           "lat": [], "widened": 0}
    small = d["profile"] == "small" and task.get("exhaustive_small", True)

    def V(pid, sig, case):
        if pid in props:
            case.update({"desc": d["name"], "profile": d["profile"], "gen_seed": d["gen_seed"],
                         "endianness": A.endianness(d["file"]), "flavour": task["flavour"],
                         "pdl": d["text"]})
            res["viol"].append((pid, "%s|rust|%s" % (pid, sig), case))

    for tid in types_of(m.file):
        res["types"] += 1
        vg = ValueGen(m, rng)
        vals = vg.valid_values(tid, max(6, task["nv"]))
        ins = inputs_for(m, tid, vals, rng, task["nb"], small=small)
        for c in type_constructs(m, tid):
            res["constructs"][c] = res["constructs"].get(c, 0) + 1
        for b, tag in ins:
            exp = expectation(m, tid, b)
            r = cl.call({"d": d["name"], "t": tid, "op": "dec", "hex": b.hex(), "cap": CAP})
            res["evals"] += 1
            tclass = tag.split(":")[0] + (":" + tag.split(":")[1] if tag.startswith("field:") else "")
            res["classes"][tclass] = res["classes"].get(tclass, 0) + 1
            case = {"type": tid, "op": "dec", "hex": b.hex(), "input_class": tag,
                    "model": exp[0] if exp[0] != "fault" else {"fault": exp[1], "at": exp[2]}}
            where = where_of(m, exp)
            if "crash" in r:
                kind = "alloc-cap" if r["crash"].get("alloc_cap") else "crash:%s" % r["crash"].get("signal")
                V("C01", "%s|%s" % (kind, where), dict(case, observed=_short(r)))
                continue
            if "timeout" in r:
                # re-run alone with a long deadline before calling it non-termination
                r2 = cl.call({"d": d["name"], "t": tid, "op": "dec", "hex": b.hex(), "cap": CAP}, timeout=40)
                if "timeout" in r2:
                    V("C01", "does-not-terminate|%s" % where, dict(case, observed="no reply within 40 s (median op latency is microseconds)"))
                continue
            if "panic" in r:
                site = call_site(rc, d, r["panic"]["loc"]) or wrap_context(m, exp) or where
                V("C01", "panic:%s|%s" % (norm_msg(r["panic"]["msg"]), site), dict(case, observed=r["panic"]))
                continue
            res["lat"].append(r.get("ns", 0))
            peak = r.get("decode_alloc_peak", 0)
            if peak > ALLOC_BASE + ALLOC_PER_BYTE * len(b):
                V("C01", "allocation-out-of-proportion|%s" % where,
                  dict(case, observed={"alloc_peak": peak, "input_len": len(b)}))
            dec = r.get("decode", {})
            df = r.get("decode_full", {})
            dm = r.get("decode_mut", {})
            if "ok" in dec:
                if not dec.get("suffix") or dec.get("rem", 0) > len(b):
                    V("C01", "remainder-not-a-suffix|%s" % where, dict(case, observed=dec))
            if "err" in dm and dm.get("slice_untouched") is False:
                V("C01", "decode_mut-moved-slice-on-error|%s" % where, dict(case, observed=dm))
                V("C18", "decode_mut-moved-slice-on-error", dict(case, observed=dm))
            # progress past the first guard = non-trivial
            if "ok" in dec or dec.get("err") != "LengthError" or len(b) > 0:
                res["nontrivial"].add(common.h(d["name"], tid, b.hex()))
            # ---- C18 laws
            if "ok" in dec:
                if dec.get("rem") == 0:
                    if "ok" not in df or not df.get("eq_decode"):
                        V("C18", "decode_full-differs-from-decode", dict(case, observed={"decode": dec, "decode_full": df}))
                else:
                    if df.get("err") != "TrailingBytesError":
                        V("C18", "decode_full-ignores-trailing-bytes", dict(case, observed={"decode": dec, "decode_full": df}))
                if "ok" not in dm or not dm.get("eq_decode") or not dm.get("slice_at_decode_rem"):
                    V("C18", "decode_mut-differs-from-decode", dict(case, observed={"decode": dec, "decode_mut": dm}))
            elif "err" in dec:
                if "err" not in df or not df.get("eq_decode_err"):
                    V("C18", "decode_full-error-differs", dict(case, observed={"decode": dec, "decode_full": df}))
                if "err" not in dm or not dm.get("eq_decode_err"):
                    V("C18", "decode_mut-error-differs", dict(case, observed={"decode": dec, "decode_mut": dm}))
            # ---- C04 acceptance / values / canonical / variant
            if exp[0] == "abstain":
                res["abstain"] += 1
                continue
            if "ok" in df:
                res["accepted"] += 1
            else:
                res["rejected"] += 1
                res["variants"][df.get("err")] = res["variants"].get(df.get("err"), 0) + 1
            if len(res["samples"]) < 3 and tag != "valid":
                res["samples"].append({"desc": d["name"], "type": tid, "hex": b.hex(), "class": tag,
                                       "rust": df.get("err") or "accepted", "model": case["model"]})
            if exp[0] == "ok":
                if "ok" not in df:
                    V("C04", "rejects-valid:%s|%s" % (df.get("err"), _reject_where(m, tid, df)), dict(case, observed=df))
                else:
                    if df["ok"] != exp[1]:
                        V("C04", "wrong-field-values|%s" % _diff_where(m, tid, df["ok"], exp[1]),
                          dict(case, observed=df["ok"], expected=exp[1]))
                    elif df.get("reenc") != exp[2]:
                        V("C04", "re-encoding-not-canonical|%s" % ",".join(type_constructs(m, tid))[:100],
                          dict(case, observed=df.get("reenc") or df.get("reenc_err"), expected=exp[2]))
            else:
                kinds = exp[1]
                if "ok" in df:
                    V("C04", "accepts-invalid:%s|%s" % ("+".join(sorted(set(kinds))), where), dict(case, observed=df["ok"]))
                elif len(set(kinds)) == 1:
                    wantv = RUST_DECODE_VARIANT[kinds[0]]
                    if df.get("err") != wantv:
                        V("C04", "wrong-error-variant:%s-for-%s|%s" % (df.get("err"), kinds[0], where),
                          dict(case, observed=df))
    cl.close()
    res["nontrivial"] = sorted(res["nontrivial"])
    lat = sorted(res["lat"])
    res["lat"] = {"median_ns": lat[len(lat) // 2] if lat else 0, "max_ns": lat[-1] if lat else 0}
    return res


def _reject_where(m, tid, df):
    det = df.get("detail", "")
    mm = re.search(r'obj: "([^"]+)"(?:, field: "([^"]*)")?', det)
    if mm:
        return describe_field(m, "%s.%s" % (mm.group(1), mm.group(2) or "?"))
    return ",".join(type_constructs(m, tid))[:80]


def _diff_where(m, tid, got, want):
    if isinstance(got, dict) and isinstance(want, dict):
        for k in sorted(set(got) | set(want)):
            if got.get(k) != want.get(k):
                d = m.dm[tid]
                fl = m.field_by_id(d, k) if k != "payload" else None
                if fl is not None:
                    for x in m.chain(d):
                        for idx, f2 in enumerate(x["fields"]):
                            if f2 is fl:
                                return describe(m, x, idx, fl) if not m.is_bitfield(fl) else \
                                    "%s:%s" % (fl["kind"].replace("_field", ""), wclass(m.bit_width(fl)))
                return k
    return "?"


# ---------------------------------------------------------------- merge
def merge(check, results, pid):
    tot = {"evals": 0, "nontrivial": set(), "abstain": 0, "ops": {}, "variants": {}, "constructs": {},
           "types": 0, "accepted": 0, "rejected": 0, "classes": {}, "samples": [], "bad_tags": {},
           "median_ns": [], "max_ns": 0}
    for r in results:
        tot["evals"] += r["evals"]
        tot["nontrivial"].update(r["nontrivial"])
        tot["abstain"] += r.get("abstain", 0)
        tot["types"] += r.get("types", 0)
        tot["accepted"] += r.get("accepted", 0)
        tot["rejected"] += r.get("rejected", 0)
        for k in ("ops", "variants", "constructs", "classes", "bad_tags"):
            for a, b in r.get(k, {}).items():
                tot[k][a] = tot[k].get(a, 0) + b
        if len(tot["samples"]) < 5:
            tot["samples"].extend(r.get("samples", [])[:1])
        if isinstance(r.get("lat"), dict):
            tot["median_ns"].append(r["lat"]["median_ns"])
            tot["max_ns"] = max(tot["max_ns"], r["lat"]["max_ns"])
        for p, sig, case in r["viol"]:
            if p == pid:
                check.violation(sig, case)
    return tot


# ---------------------------------------------------------------- inheritance side (C06, C01)
def inh_worker(task):
    rc = _RC
    d = rc.live[task["di"]]
    props = set(task["props"])
    m = Model(d["file"])
    rng = random.Random("%s/%s/inh" % (d["gen_seed"], d["profile"]))
    cl = rc.client(task["flavour"])
    res = {"evals": 0, "nontrivial": set(), "viol": [], "samples": [], "abstain": 0, "ops": {},
           "outcomes": {}, "types": 0, "widened": 0, "trees": 0, "variants": {}, "constructs": {}}

    _gh = {}

    def ghaz(t):
        if t not in _gh:
            _gh[t] = t in m.dm and (greedy_struct_field_not_last(m, t) or any(
                greedy_struct_field_not_last(m, c if isinstance(c, str) else c["id"]) for c in m.descendants(t)))
        return _gh[t]

    def V(pid, sig, case):
        if pid == "C06" and ghaz(case.get("type")) and "panics" not in sig:
            # recorded root cause (see C02): the child cannot be decoded back from its own bytes
            case = dict(case, failure=sig)
            sig = "conversion-diverges|derived-struct-with-unsized-root-payload-as-field-before-other-fields"
        if pid in props:
            case.update({"desc": d["name"], "profile": d["profile"], "gen_seed": d["gen_seed"],
                         "endianness": A.endianness(d["file"]), "flavour": task["flavour"],
                         "pdl": d["text"]})
            res["viol"].append((pid, "%s|rust|%s" % (pid, sig), case))

    def call(t, op, **kw):
        r = cl.call(dict({"d": d["name"], "t": t, "op": op, "cap": CAP}, **kw))
        res["evals"] += 1
        res["ops"][op.split(":")[0]] = res["ops"].get(op.split(":")[0], 0) + 1
        return r

    def desc_ids(x):
        out = []
        for c in A.children_of(m.file, x):
            out.append(c["id"])
            out.extend(desc_ids(c["id"]))
        return out

    def shape(pid):
        p = m.dm[pid]
        depth = 0

        def dep(x):
            ks = A.children_of(m.file, x)
            return 1 + max([dep(k["id"]) for k in ks], default=0)
        kinds = set()
        for c in desc_ids(pid):
            for cc in m.dm[c].get("constraints", ()):
                kinds.add("enum" if cc.get("tag_id") else "scalar")
        return "depth%d:%s:%s" % (dep(pid) - 1, "+".join(sorted(kinds)) or "unconstrained",
                                  "sized" if m.payload_size_field(p) else "unsized")

    parents = [t for t in types_of(m.file) if A.children_of(m.file, t)]
    for pid in parents:
        res["types"] += 1
        if m.dm[pid].get("parent_id") is None:
            res["trees"] += 1
        sh = shape(pid)
        res["constructs"][sh] = res["constructs"].get(sh, 0) + 1
        vg = ValueGen(m, rng)
        pvals = []   # (parent value, origin)
        # (b) from child values, through the implementation's own up-conversion
        for cid in desc_ids(pid):
            for cv, cenc in vg.valid_values(cid, max(3, task["nv"] // 4)):
                r = call(cid, "up:%s" % pid, value=cv)
                case = {"type": cid, "op": "up:%s" % pid, "value": cv}
                if "panic" in r or "crash" in r or "timeout" in r:
                    V("C06", "parent-from-child-panics|%s" % sh, dict(case, observed=_short(r)))
                    continue
                try:
                    want = m.parent_from_child(pid, cid, cv)
                except (Abstain, EncodeFault):
                    res["abstain"] += 1
                    continue
                if "ok" not in r:
                    V("C06", "parent-from-child-fails|%s" % sh, dict(case, observed=_short(r), expected=want))
                    continue
                got = r["ok"]
                if got != want:
                    V("C06", "parent-from-child-wrong-value|%s" % sh, dict(case, observed=got, expected=want))
                    continue
                res["nontrivial"].add(common.h(d["name"], cid, pid, json.dumps(cv, sort_keys=True)[:3000]))
                # same bytes as the child: as the reference encodes the child, and as the implementation
                # itself encodes it (the property relates the two encoders, whatever the reference says)
                r2 = call(pid, "enc", value=got)
                if r2.get("to_vec", {}).get("ok") != bytes(cenc.data).hex():
                    V("C06", "parent-of-child-encodes-differently|%s" % sh,
                      dict(case, observed=r2.get("to_vec"), expected=bytes(cenc.data).hex()))
                rc2 = call(cid, "enc", value=cv)
                if "ok" in rc2.get("to_vec", {}) and rc2["to_vec"]["ok"] != r2.get("to_vec", {}).get("ok"):
                    V("C06", "child-and-its-parent-encode-differently|%s" % sh,
                      dict(case, observed={"child": rc2["to_vec"]["ok"], "parent_of_child": r2.get("to_vec")}))
                # and back
                r3 = call(pid, "down:%s" % cid, value=got)
                if r3.get("ok") != cv:
                    V("C06", "child-parent-child-not-identity|%s" % sh, dict(case, observed=_short(r3)))
                pvals.append((got, "from-child:" + cid))
        # (a) parents decoded from mutated / arbitrary bytes
        own = vg.valid_values(pid, max(4, task["nv"] // 3))
        ins = inputs_for(m, pid, own, rng, max(20, task["nb"] // 4))
        big = m.big
        for cid in desc_ids(pid)[:6]:
            for cv, cenc in vg.valid_values(cid, 3):
                ins.append((bytes(cenc.data), "child-encoding"))
                ins.extend(mutate.field_targeted(cenc, big, kinds=("scalar", "enum", "size"), per_mark=4, rng=rng))
                ins.extend(mutate.bitflips(bytes(cenc.data), rng, 4))
        seen = set()
        for b, tag in ins:
            if b in seen or len(b) > 2048:
                continue
            seen.add(b)
            r = call(pid, "dec", hex=b.hex())
            dv = r.get("decode", {})
            if "ok" in dv:
                pvals.append((dv["ok"], "decoded:" + tag.split(":")[0]))
        # specialize + conversions on every parent value
        useen = set()
        for pv, origin in pvals:
            key = json.dumps(pv, sort_keys=True)
            if key in useen:
                continue
            useen.add(key)
            case = {"type": pid, "op": "specialize", "value": pv, "origin": origin}
            r = call(pid, "specialize", value=pv)
            if "panic" in r or "crash" in r or "timeout" in r:
                sig = "specialize-panics:%s|%s" % (norm_msg(r.get("panic", {}).get("msg", "crash")), sh)
                V("C01", sig, dict(case, observed=_short(r)))
                V("C06", sig, dict(case, observed=_short(r)))
                continue
            if "deser_err" in r:
                continue
            try:
                outcomes, expected, widened = m.specialize(pid, pv)
            except Abstain:
                res["abstain"] += 1
                continue
            if widened:
                res["widened"] += 1
            if "err" in r:
                got = ("err",)
            elif r.get("child") is None:
                got = ("none",)
            else:
                got = ("child", r["child"])
            res["outcomes"][got[0]] = res["outcomes"].get(got[0], 0) + 1
            res["nontrivial"].add(common.h(d["name"], pid, key[:3000]))
            if len(res["samples"]) < 3 and got[0] == "child":
                res["samples"].append({"desc": d["name"], "parent": pid, "value": pv, "specialize": r.get("child")})
            if got not in outcomes:
                V("C06", "specialize-wrong-outcome:%s-not-in-%s|%s" % (
                    got[0], "+".join(sorted(o[0] for o in outcomes)), sh),
                  dict(case, observed=_short(r), admissible=sorted(map(list, outcomes))))
            elif got[0] == "child" and r.get("value") != expected[got[1]]:
                V("C06", "specialize-wrong-child-value|%s" % sh,
                  dict(case, observed=r.get("value"), expected=expected[got[1]]))
            # every descendant conversion
            for cid in desc_ids(pid):
                r = call(pid, "down:%s" % cid, value=pv)
                c2 = {"type": pid, "op": "down:%s" % cid, "value": pv, "origin": origin}
                if "panic" in r or "crash" in r or "timeout" in r:
                    sig = "child-from-parent-panics:%s|%s" % (norm_msg(r.get("panic", {}).get("msg", "crash")), sh)
                    V("C01", sig, dict(c2, observed=_short(r)))
                    V("C06", sig, dict(c2, observed=_short(r)))
                    continue
                try:
                    want = m.child_from_parent(cid, pid, pv)
                    fault = None
                except DecodeFault as e:
                    want, fault = None, e.kinds
                except Abstain:
                    res["abstain"] += 1
                    continue
                if fault is None:
                    if r.get("ok") != want:
                        V("C06", "child-from-parent-wrong:%s|%s" % ("value" if "ok" in r else r.get("err"), sh),
                          dict(c2, observed=_short(r), expected=want))
                else:
                    res["variants"][r.get("err")] = res["variants"].get(r.get("err"), 0) + 1
                    if "ok" in r:
                        V("C06", "child-from-parent-accepts:%s|%s" % ("+".join(sorted(set(fault))), sh),
                          dict(c2, observed=r["ok"]))
                    elif len(set(fault)) == 1 and r.get("err") != RUST_DECODE_VARIANT[fault[0]]:
                        V("C06", "child-from-parent-wrong-variant:%s-for-%s|%s" % (r.get("err"), fault[0], sh),
                          dict(c2, observed=_short(r)))
    cl.close()
    res["nontrivial"] = sorted(res["nontrivial"])
    return res


# ---------------------------------------------------------------- Miri tier (thorough C01 / C18)
def miri_tier(check, pid, n_ops=300, profiles=("array", "optional", "inherit", "payload")):
    """A small corpus run under `cargo +nightly miri run`: the interpreter checks every executed
    operation for undefined behaviour (the generated code and pdl-runtime are safe Rust; what Miri
    watches is the `bytes` internals they drive: BytesMut growth / freeze, Buf cursor arithmetic)
    and its answers are compared with the native harness' answers on the same requests.
    -> coverage dict; violations are added to check."""
    import os
    import subprocess
    import tempfile
    from ..engines import build
    descs = [d for d in corpus.descriptions(check.seed, 1, list(profiles)) if A.endianness(d["file"]) == A.LE]
    rc = RustCorpus("miri-s%d" % check.seed, descs)
    rc.generate()
    rc.build("dev")
    cl = rc.client("dev")
    reqs = []
    rng = random.Random("miri/%d" % check.seed)
    per_desc = max(8, n_ops // max(1, len(rc.live)))
    for d in rc.live:
        m = Model(d["file"])
        k = 0
        for tid in types_of(m.file):
            vg = ValueGen(m, rng, max_array=6, max_payload=8)
            vals = vg.valid_values(tid, 3)
            for v, enc in vals[:2]:
                reqs.append({"d": d["name"], "t": tid, "op": "enc", "value": v})
                k += 1
            for b, tag in inputs_for(m, tid, vals, rng, 6):
                if len(b) <= 64:
                    reqs.append({"d": d["name"], "t": tid, "op": "dec", "hex": b.hex()})
                    k += 1
            if k >= per_desc:
                break
    reqs = reqs[:n_ops]
    native = []
    for i, q in enumerate(reqs):
        native.append(cl.call(dict(q, cap=CAP)))
    cl.close()
    path = os.path.join(rc.dir, "miri-in.jsonl")
    with open(path, "w") as f:
        for i, q in enumerate(reqs):
            f.write(json.dumps(dict(q, id=i + 1)) + "\n")
    env = dict(build.ENV)
    env["MIRIFLAGS"] = "-Zmiri-disable-isolation"
    target = os.path.join(build.WORK, "target-" + build._repo_tag() + "-miri")
    t0 = __import__("time").time()
    with build.Lock("build-miri"):
        p = subprocess.run(["cargo", "+nightly", "miri", "run", "--offline", "-q", "-p", "harness-" + rc.tag,
                            "--manifest-path", os.path.join(rc.dir, "Cargo.toml"), "--target-dir", target],
                           stdin=open(path), stdout=subprocess.PIPE, stderr=subprocess.PIPE, env=env, timeout=3 * 3600)
    wall = __import__("time").time() - t0
    out = p.stdout.decode("utf-8", "replace").strip().split("\n")
    err = p.stderr.decode("utf-8", "replace")
    answers = []
    for ln in out:
        try:
            answers.append(json.loads(ln))
        except ValueError:
            pass

    def norm(r):
        if isinstance(r, dict):
            return {k: norm(v) for k, v in r.items() if k not in ("ns", "alloc_peak", "alloc_largest", "elapsed", "id", "loc")}
        if isinstance(r, list):
            return [norm(x) for x in r]
        return r
    ub = "Undefined Behavior" in err or "error: unsupported operation" in err
    if ub or (p.returncode != 0 and len(answers) < len(reqs)):
        k = len(answers)
        kind = "miri-undefined-behaviour" if "Undefined Behavior" in err else "miri-run-died"
        first = next((ln for ln in err.split("\n") if ln.startswith("error")), err[:200])
        if "Undefined Behavior" in err:
            check.violation("%s|rust|%s|%s" % (pid, kind, norm_msg(first)),
                            {"request": reqs[k] if k < len(reqs) else None, "miri_stderr": err[-3000:]})
        else:
            raise common.Inconclusive("miri run failed: " + err[-1500:])
    diff = 0
    for q, a, b in zip(reqs, native, answers):
        if norm(a) != norm(b):
            diff += 1
            check.violation("%s|rust|miri-answer-differs-from-native|%s" % (pid, q["op"]),
                            {"request": q, "native": norm(a), "miri": norm(b)})
    return {"miri_operations": len(answers), "miri_descriptions": len(rc.live), "miri_wall_s": round(wall, 1),
            "miri_answers_equal_to_native": len(answers) - diff, "miri_ub_reports": 1 if "Undefined Behavior" in err else 0}
