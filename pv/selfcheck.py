"""Oracle self-validation: the reference model must reproduce the project's canonical
vectors (pinned copies under corpus/). A mismatch means the *oracle* is broken."""
from __future__ import annotations

import json
import os

from . import ast as A
from .refmodel import Model, Abstain, DecodeFault, EncodeFault

HERE = os.path.dirname(os.path.dirname(os.path.abspath(__file__)))

ERR_KIND = {"LengthError": "length", "TrailingBytesError": "trailing", "EnumValueError": "enum",
            "FixedValueError": "fixed", "ArraySizeError": "array-size",
            "ConstraintValueError": "constraint", "TrailingBytesInArray": "trailing-in-array"}


def load(e):
    f = json.load(open(os.path.join(HERE, "corpus/canonical/%s_test_file.json" % e)))
    vec = json.load(open(os.path.join(HERE, "corpus/canonical/%s_test_vectors.json" % e)))
    return f, vec


def rust_shape(m, tid, v):
    """Canonical vectors spell constrained parent fields in a child's object; the model's
    (Rust serde) shape does not."""
    d = m.dm[tid]
    cons = m.all_constraints(d)
    out = {}
    for k, x in v.items():
        if k in cons:
            continue
        out[k] = x
    return out


def normalize(m, tid, v):
    """vectors omit nothing; nested struct values are already objects."""
    return v


def run(verbose=False):
    stats = {"vectors": 0, "encode_ok": 0, "decode_ok": 0, "error_ok": 0, "abstained": 0,
             "mismatches": []}
    for e in ("le", "be"):
        f, vec = load(e)
        m = Model(f)
        for entry in vec:
            tid = entry.get("packet")
            if tid not in m.dm:
                continue
            for t in entry["tests"]:
                stats["vectors"] += 1
                packed = bytes.fromhex(t["packed"])
                tt = t.get("packet", tid)
                if "expected_error" in t:
                    try:
                        m.decode(tt, packed)
                        stats["mismatches"].append((e, tt, t["packed"], "accepted, expected " + t["expected_error"]))
                    except DecodeFault as x:
                        want = ERR_KIND.get(t["expected_error"])
                        if want in x.kinds:
                            stats["error_ok"] += 1
                        else:
                            stats["mismatches"].append((e, tt, t["packed"], "fault %s, expected %s" % (x.kinds, t["expected_error"])))
                    except Abstain as x:
                        stats["abstained"] += 1
                    continue
                v = rust_shape(m, tt, t["unpacked"])
                try:
                    enc = bytes(m.encode(tt, v).data)
                    if enc == packed:
                        stats["encode_ok"] += 1
                    else:
                        stats["mismatches"].append((e, tt, t["packed"], "encode gave " + enc.hex()))
                    dv, n = m.decode(tt, packed)
                    if dv == v:
                        stats["decode_ok"] += 1
                    else:
                        stats["mismatches"].append((e, tt, t["packed"], "decode gave %r want %r" % (dv, v)))
                except Abstain as x:
                    stats["abstained"] += 1
                    if verbose:
                        print("abstain", e, tt, x)
                except (EncodeFault, DecodeFault) as x:
                    stats["mismatches"].append((e, tt, t["packed"], "fault %s" % x))
    return stats


if __name__ == "__main__":
    s = run(verbose=True)
    for mm in s["mismatches"][:40]:
        print(mm)
    print({k: (v if k != "mismatches" else len(v)) for k, v in s.items()})
