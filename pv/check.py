"""./verif check <ID> [--tier quick|thorough]"""
from __future__ import annotations

import argparse
import os
import sys
import traceback

from .checks import common

RUST = {"C01", "C02", "C03", "C04", "C05", "C06", "C17", "C18"}


def dispatch(pid, tier):
    if pid in RUST:
        from .checks import rust_checks
        return rust_checks.run(pid, tier)
    mod = __import__("pv.checks.%s" % pid.lower(), fromlist=["run"])
    return mod.run(tier)


def main():
    ap = argparse.ArgumentParser()
    ap.add_argument("pid")
    ap.add_argument("--tier", default=os.environ.get("VERIF_TIER", "quick"), choices=["quick", "thorough"])
    a = ap.parse_args()
    os.environ["VERIF_TIER"] = a.tier
    try:
        code = dispatch(a.pid.upper(), a.tier)
    except common.Inconclusive as e:
        print("INCONCLUSIVE property=%s reason=%s" % (a.pid, str(e)[:3000]))
        code = 2
    except Exception:
        traceback.print_exc()
        print("INCONCLUSIVE property=%s reason=check machinery crashed" % a.pid)
        code = 2
    sys.exit(code)


if __name__ == "__main__":
    main()
