"""Boundary-biased value generation over the reference model, plus out-of-range mutants
(C05) — every generated value is checked for encodability by the model itself."""
from __future__ import annotations

import copy

from . import ast as A
from .refmodel import Abstain, EncodeFault, umax


def backing(width):
    for w in (8, 16, 32, 64):
        if width <= w:
            return w
    return 64


class ValueGen:
    def __init__(self, model, rng, max_array=40, max_payload=40):
        self.m = model
        self.rng = rng
        self.max_array = max_array
        self.max_payload = max_payload

    # ---------------------------------------------------------------- scalars
    def scalar(self, w):
        r = self.rng
        m = umax(w)
        k = r.random()
        if k < 0.15:
            return 0
        if k < 0.25:
            return min(1, m)
        if k < 0.40:
            return m
        if k < 0.48:
            return max(0, m - 1)
        if k < 0.60:
            return (1 << r.randrange(w)) & m
        if k < 0.68:
            # alternating / byte-distinct patterns expose byte-order and shift mistakes
            pat = int.from_bytes(bytes((0x81 + 0x11 * i) & 0xFF for i in range(8)), "big")
            return pat & m
        return r.randint(0, m)

    def enum_value(self, type_id):
        vals = self.m.enum(type_id).some_values()
        return self.rng.choice(vals)

    # ---------------------------------------------------------------- compound
    def value(self, tid, scale=1.0, depth=0):
        """random value of packet / struct / custom type tid (not yet validated)."""
        m = self.m
        d = m.dm[tid]
        if d["kind"] == "custom_field_declaration":
            return self.scalar(d["width"])
        if depth > 6:
            scale = 0.0
        out = {}
        for x in m.chain(d):
            self._fill(x, out, scale, depth)
        cons = m.all_constraints(d)
        for c in cons:
            out.pop(c, None)
        if A.get_payload(d) is not None:
            out["payload"] = self._payload_bytes(d, scale)
        return out

    def _payload_bytes(self, d, scale):
        r = self.rng
        sf = self.m.payload_size_field(d)
        limit = self.max_payload
        pl = A.get_payload(d)
        if sf is not None:
            lim = umax(sf["width"])
            if pl.get("size_modifier"):
                lim -= int(pl["size_modifier"])
            limit = max(0, min(limit, lim))
        limit = int(limit * scale) if scale < 1 else limit
        n = r.choice([0, 0, 1, 2, limit, r.randint(0, limit)]) if limit > 0 else 0
        return [r.randrange(256) for _ in range(n)]

    def _fill(self, d, out, scale, depth):
        m = self.m
        r = self.rng
        flags = m.flags_of(d)
        flagval = {f: r.choice([0, 1]) for f in flags}
        optional_flag = {}
        for f, lst in flags.items():
            for (oid, cv) in lst:
                optional_flag[oid] = (f, cv)
        for idx, fl in enumerate(d["fields"]):
            i = A.field_id(fl)
            if i is None or i in flags:
                continue
            k = fl["kind"]
            if fl.get("cond") is not None:
                f, cv = optional_flag[i]
                if flagval[f] != cv:
                    out[i] = None
                    continue
            if k == "scalar_field":
                out[i] = self.scalar(fl["width"])
            elif k == "typedef_field":
                tk = m.kind(fl["type_id"])
                if tk == "enum_declaration":
                    out[i] = self.enum_value(fl["type_id"])
                else:
                    out[i] = self.value(fl["type_id"], scale, depth + 1)
            elif k == "array_field":
                out[i] = self._array(d, idx, fl, scale, depth)

    def _elem(self, fl, scale, depth):
        if fl.get("width") is not None:
            return self.scalar(fl["width"])
        if self.m.kind(fl["type_id"]) == "enum_declaration":
            return self.enum_value(fl["type_id"])
        return self.value(fl["type_id"], scale * 0.5, depth + 1)

    def _elem_size(self, fl, x):
        if fl.get("width") is not None:
            return fl["width"] // 8
        if self.m.kind(fl["type_id"]) == "enum_declaration":
            return self.m.dm[fl["type_id"]]["width"] // 8
        try:
            return len(self.m.encode(fl["type_id"], x).data)
        except (EncodeFault, Abstain):
            return None

    def _array(self, d, idx, fl, scale, depth):
        m = self.m
        r = self.rng
        i = fl["id"]
        if fl.get("size") is not None:
            n_choices = [fl["size"]]
            max_n = fl["size"]
        else:
            max_n = max(0, int(self.max_array * scale))
            tgt = m.array_target(d, i)
            if tgt is not None and tgt["kind"] == "count_field":
                max_n = min(max_n if umax(tgt["width"]) > 300 else max(max_n, umax(tgt["width"])),
                            umax(tgt["width"]))
            n_choices = [0, 1, 2, 3, max_n, r.randint(0, max_n)]
        n = r.choice(n_choices)
        byte_limit = None
        tgt = m.array_target(d, i)
        if tgt is not None and tgt["kind"] == "size_field":
            byte_limit = umax(tgt["width"])
            if fl.get("size_modifier"):
                byte_limit -= int(fl["size_modifier"])
        pad = m.padding_after(d, idx)
        if pad is not None:
            byte_limit = pad if byte_limit is None else min(byte_limit, pad)
        esf = m.elementsize_of(d, i)
        out = []
        total = 0
        first_size = None
        tries = 0
        while len(out) < n and tries < n * 6 + 10:
            tries += 1
            x = self._elem(fl, scale, depth)
            sz = self._elem_size(fl, x)
            if sz is None:
                continue
            if esf is not None and fl.get("width") is None:
                if first_size is None:
                    if sz > umax(esf["width"]):
                        continue
                    first_size = sz
                elif sz != first_size:
                    # repeat a size-compatible element instead
                    if not out:
                        first_size = None
                        continue
                    x = copy.deepcopy(r.choice(out))
                    sz = first_size
            if byte_limit is not None and total + sz > byte_limit:
                if fl.get("size") is not None:
                    continue  # static count must be met; try a smaller element
                break
            out.append(x)
            total += sz
        return out

    # ---------------------------------------------------------------- validated values
    def valid_values(self, tid, n):
        """up to n values accepted by the reference encoder -> list of (value, Enc)"""
        out = []
        seen = set()
        attempts = 0
        scale = 1.0
        while len(out) < n and attempts < n * 4 + 8:
            attempts += 1
            try:
                v = self.value(tid, scale)
                e = self.m.encode(tid, v)
            except EncodeFault:
                scale = max(0.05, scale * 0.6)
                continue
            except Abstain:
                break
            key = bytes(e.data)
            if len(key) > 4096:
                scale = max(0.05, scale * 0.6)
                continue
            k2 = (key, repr(v))
            if k2 in seen:
                continue
            seen.add(k2)
            out.append((v, e))
        return out

    # ---------------------------------------------------------------- out-of-range mutants
    def bad_values(self, tid, base, limit=12):
        """Mutants of valid value `base`, each intended to carry one encode fault.
        -> list of (value, tag)."""
        m = self.m
        r = self.rng
        d = m.dm[tid]
        out = []
        if d["kind"] == "custom_field_declaration":
            w = d["width"]
            return [(umax(w) + 1, "custom:%d:max+1" % w)] if backing(w) > w else []

        def put(v, tag):
            out.append((v, tag))

        for x in m.chain(d):
            flags = m.flags_of(x)
            for idx, fl in enumerate(x["fields"]):
                i = A.field_id(fl)
                if i is None or i in flags or i not in base:
                    continue
                k = fl["kind"]
                cur = base[i]
                if k == "scalar_field":
                    w = fl["width"]
                    b = backing(w)
                    if cur is None:
                        continue
                    for bad, t in ((umax(w) + 1, "max+1"), (umax(b), "backing-max")):
                        if b > w:
                            v = copy.deepcopy(base)
                            v[i] = bad
                            put(v, "scalar:%s:%s%s" % (w, t, ":optional" if fl.get("cond") else ""))
                elif k == "array_field":
                    if cur is None:
                        continue
                    tgt = m.array_target(x, i)
                    pad = m.padding_after(x, idx)
                    if fl.get("width") is not None and backing(fl["width"]) > fl["width"] and cur:
                        v = copy.deepcopy(base)
                        j = r.randrange(len(cur))
                        v[i][j] = r.choice([umax(fl["width"]) + 1, umax(backing(fl["width"]))])
                        put(v, "array-elem:%d" % fl["width"])
                    if fl.get("size") is None:
                        ex = self._elem(fl, 0.3, 3)
                        sz = self._elem_size(fl, ex)
                        if tgt is not None and sz:
                            mx = umax(tgt["width"])
                            if tgt["kind"] == "count_field" and mx <= 1100:
                                v = copy.deepcopy(base)
                                v[i] = [copy.deepcopy(ex) for _ in range(mx + 1)]
                                put(v, "count:%d:max+1" % tgt["width"])
                            if tgt["kind"] == "size_field" and mx <= 4200:
                                n = mx // sz + 1
                                v = copy.deepcopy(base)
                                v[i] = [copy.deepcopy(ex) for _ in range(n)]
                                put(v, "size:%d:max+1" % tgt["width"])
                        if pad is not None and sz and pad <= 4200:
                            n = pad // sz + 1
                            if tgt is None or tgt["kind"] != "count_field" or n <= umax(tgt["width"]):
                                v = copy.deepcopy(base)
                                v[i] = [copy.deepcopy(ex) for _ in range(n)]
                                put(v, "padding:max+1")
                        esf = m.elementsize_of(x, i)
                        if esf is not None and fl.get("width") is None and len(cur) >= 1:
                            # make one element a different size
                            for _ in range(6):
                                e2 = self._elem(fl, 1.0, 2)
                                s2 = self._elem_size(fl, e2)
                                s1 = self._elem_size(fl, cur[0])
                                if s2 is not None and s1 is not None and s2 != s1:
                                    v = copy.deepcopy(base)
                                    v[i] = v[i] + [e2]
                                    put(v, "elementsize:mismatch")
                                    break
            # optional fields sharing a flag, made inconsistent
            for f, lst in flags.items():
                if len(lst) >= 2:
                    # every way of having exactly one of the optionals disagree with the others: all consistent
                    # with flag value F, then the presence of the k-th one toggled (the guard has to look at
                    # each of them, not at the first two)
                    fdef = {o: next(fl for fl in x["fields"] if A.field_id(fl) == o) for o, _ in lst}
                    for F in (0, 1):
                        for k in range(len(lst)):
                            v = copy.deepcopy(base)
                            for j, (o, c) in enumerate(lst):
                                present = (c == F) != (j == k)
                                v[o] = self._opt_value(fdef[o]) if present else None
                            put(v, "condition:inconsistent:%d-of-%d" % (k + 1, len(lst)))
        if A.get_payload(d) is not None and "payload" in base:
            sf = m.payload_size_field(d)
            if sf is not None and umax(sf["width"]) <= 4200:
                v = copy.deepcopy(base)
                v["payload"] = [r.randrange(256) for _ in range(umax(sf["width"]) + 1)]
                put(v, "payload-size:%d:max+1" % sf["width"])
        # enum integer that is not a value of the enum (not constructible: deserialization error)
        for fl, owner in m.data_fields(d):
            if fl["kind"] == "typedef_field" and m.kind(fl["type_id"]) == "enum_declaration" \
                    and base.get(fl["id"]) is not None:
                inv = m.enum(fl["type_id"]).some_invalid()
                w = m.dm[fl["type_id"]]["width"]
                cand = list(inv[:2])
                if backing(w) > w:
                    cand.append(umax(w) + 1)
                for bad in cand:
                    v = copy.deepcopy(base)
                    v[fl["id"]] = bad
                    put(v, "enum-invalid")
        r.shuffle(out)
        return out[:limit]

    def _opt_value(self, fl):
        if fl["kind"] == "scalar_field":
            return self.scalar(fl["width"])
        if self.m.kind(fl["type_id"]) == "enum_declaration":
            return self.enum_value(fl["type_id"])
        return self.value(fl["type_id"], 0.5, 2)
