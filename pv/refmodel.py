"""Reference model R: an executable reading of doc/reference.md, independent of the repo's
code (never imports or shells out to it). It is the oracle for the behavioural properties.

Values use the JSON shape of the generated Rust serde impls (which is also the shape of the
project's canonical vectors): scalars / enums / sized custom fields are unsigned ints, arrays
and payloads are lists, structs are objects, absent optionals are None; a child's object has
the unconstrained named fields of all its ancestors, its own, and `payload` when it declares
a payload/body.

Every entry point either answers, raises a *Fault (the reference says "this is an error"),
or raises Abstain (the reference is silent / outside the modelled class). Abstain is never
a verdict.
"""
from __future__ import annotations

from . import ast as A


class Abstain(Exception):
    pass


class EncodeFault(Exception):
    """kind in: scalar-range, size-overflow, count-overflow, element-size, condition,
    invalid-value (value not constructible for the generated type: bad enum integer,
    wrong static array length, wrong JSON shape)."""

    def __init__(self, kind, where="", kinds=None):
        super().__init__("%s at %s" % (kind, where))
        self.kind = kind
        self.kinds = list(kinds) if kinds else [kind]
        self.where = where


class DecodeFault(Exception):
    """kinds: list of fault kinds found (length, trailing, fixed, enum, array-size,
    constraint, trailing-in-array). The first structural fault ends the parse."""

    def __init__(self, kinds, where=""):
        super().__init__("%s at %s" % (",".join(kinds), where))
        self.kinds = list(kinds)
        self.where = where
        self.in_array = False   # first fault found while decoding an array element


STRUCTURAL = {"length", "trailing", "array-size", "trailing-in-array"}

RUST_DECODE_VARIANT = {
    "length": "LengthError", "trailing": "TrailingBytesError", "fixed": "FixedValueError",
    "enum": "EnumValueError", "array-size": "ArraySizeError", "constraint": "ConstraintValueError",
    "trailing-in-array": "TrailingBytesInArray",
}
RUST_ENCODE_VARIANT = {
    "scalar-range": "InvalidScalarValue", "size-overflow": "SizeOverflow",
    "count-overflow": "CountOverflow", "element-size": "InvalidArrayElementSize",
    "condition": "InconsistentConditionValue",
}


def umax(w):
    return (1 << w) - 1


class EnumInfo:
    def __init__(self, d):
        self.id = d["id"]
        self.width = d["width"]
        self.values = {}       # value -> tag id (top-level and nested)
        self.ranges = []       # (start, end, id)
        self.default = None
        self.tag_values = {}   # tag id -> value (named tags only)
        for t in d["tags"]:
            k = A.tag_kind(t)
            if k == "value":
                self.values[t["value"]] = t["id"]
                self.tag_values[t["id"]] = t["value"]
            elif k == "range":
                self.ranges.append((t["range"]["start"], t["range"]["end"], t["id"]))
                for u in t.get("tags", ()):
                    self.values[u["value"]] = u["id"]
                    self.tag_values[u["id"]] = u["value"]
            else:
                self.default = t["id"]

    def classify(self, x):
        """('tag', id) | ('range', id) | ('other', id) | None (not a value of the enum)."""
        if x < 0 or x > umax(self.width):
            return None
        if x in self.values:
            return ("tag", self.values[x])
        for s, e, i in self.ranges:
            if s <= x <= e:
                return ("range", i)
        if self.default is not None:
            return ("other", self.default)
        return None

    def valid(self, x):
        return self.classify(x) is not None

    def some_values(self):
        """boundary-biased sample of valid integers."""
        out = list(self.values)
        for s, e, _ in self.ranges:
            out += [s, e, (s + e) // 2, min(s + 1, e), max(e - 1, s)]
        if self.default is not None:
            m = umax(self.width)
            out += [0, 1, m, m - 1, m // 2, m // 3]
        return sorted(set(x for x in out if self.valid(x)))

    def some_invalid(self):
        m = umax(self.width)
        cand = [0, 1, m, m - 1, m // 2]
        for v in list(self.values):
            cand += [v - 1, v + 1]
        for s, e, _ in self.ranges:
            cand += [s - 1, e + 1]
        return sorted(set(x for x in cand if 0 <= x <= m and not self.valid(x)))


class Seg:
    """byte run of the encoding that is one integer in file byte order (reversed in the
    twin endianness)."""
    __slots__ = ("off", "len", "what")

    def __init__(self, off, len_, what):
        self.off = off
        self.len = len_
        self.what = what

    def __repr__(self):
        return "Seg(%d,%d,%s)" % (self.off, self.len, self.what)


class Enc:
    __slots__ = ("data", "segs", "marks", "ext")

    def __init__(self):
        self.data = bytearray()
        self.segs = []   # swappable runs
        self.marks = []  # (what, path, byte offset, bit offset in chunk, width bits, chunk bytes)
        self.ext = []    # (decl id, field index, bits occupied, bits incl. padding) per encoded field

    def put_int(self, v, nbytes, big, what):
        off = len(self.data)
        self.data += int(v).to_bytes(nbytes, "big" if big else "little")
        if nbytes > 1:
            self.segs.append(Seg(off, nbytes, what))
        return off

    def extend(self, other):
        off = len(self.data)
        self.data += other.data
        for s in other.segs:
            self.segs.append(Seg(s.off + off, s.len, s.what))
        for (w, p, o, b, wd, cb) in other.marks:
            self.marks.append((w, p, o + off, b, wd, cb))
        self.ext.extend(other.ext)


class Model:
    def __init__(self, f):
        self.raw = f
        self.file = A.inline_groups(f)
        self.dm = A.decl_map(self.file)
        self.big = A.endianness(f) == A.BE
        self._enums = {}
        self._greedy = {}
        self._static = {}
        self._soft = None

    # ------------------------------------------------------------ helpers
    def enum(self, id):
        e = self._enums.get(id)
        if e is None:
            e = self._enums[id] = EnumInfo(self.dm[id])
        return e

    def kind(self, id):
        return self.dm[id]["kind"]

    def chain(self, d):
        """[root, ..., d]"""
        return list(reversed(A.parents_of(self.dm, d))) + [d]

    def all_constraints(self, d):
        """id -> integer value, over d and its ancestors (nearest wins)."""
        out = {}
        for x in reversed(self.chain(d)):
            for c in x.get("constraints", ()):
                if c["id"] not in out:
                    out[c["id"]] = c
        return out

    def field_by_id(self, d, id):
        for x in self.chain(d):
            for fl in x["fields"]:
                if A.field_id(fl) == id:
                    return fl
        return None

    def constraint_int(self, d, c):
        if c.get("value") is not None:
            return c["value"]
        fl = self.field_by_id(d, c["id"])
        return self.enum(fl["type_id"]).tag_values[c["tag_id"]]

    def data_fields(self, d):
        """named, non-flag, unconstrained fields of d and its ancestors -> list of (field, owner)"""
        cons = self.all_constraints(d)
        out = []
        for x in self.chain(d):
            flags = self.flags_of(x)
            for fl in x["fields"]:
                i = A.field_id(fl)
                if i is None or i in flags or i in cons:
                    continue
                out.append((fl, x))
        return out

    def flags_of(self, d):
        """flag id -> [(optional field id, cond value)] for this declaration."""
        out = {}
        for fl in d["fields"]:
            c = fl.get("cond")
            if c is not None:
                out.setdefault(c["id"], []).append((A.field_id(fl), c["value"]))
        return out

    def is_bitfield(self, fl):
        k = fl["kind"]
        if fl.get("cond") is not None:
            return False
        if k in ("scalar_field", "size_field", "count_field", "elementsize_field", "fixed_field",
                 "reserved_field", "flag_field"):
            return True
        if k == "typedef_field":
            return self.kind(fl["type_id"]) == "enum_declaration"
        return False

    def bit_width(self, fl):
        k = fl["kind"]
        if k == "typedef_field" or (k == "fixed_field" and "enum_id" in fl):
            return self.dm[fl.get("type_id") or fl["enum_id"]]["width"]
        return fl["width"]

    def array_target(self, d, id):
        for fl in d["fields"]:
            if fl["kind"] in ("size_field", "count_field") and fl["field_id"] == id:
                return fl
        return None

    def elementsize_of(self, d, id):
        for fl in d["fields"]:
            if fl["kind"] == "elementsize_field" and fl["field_id"] == id:
                return fl
        return None

    def payload_size_field(self, d):
        for fl in d["fields"]:
            if fl["kind"] == "size_field" and fl["field_id"] in ("_payload_", "_body_"):
                return fl
        return None

    def padding_after(self, d, idx):
        fs = d["fields"]
        if idx + 1 < len(fs) and fs[idx + 1]["kind"] == "padding_field":
            return fs[idx + 1]["size"]
        return None

    # ------------------------------------------------------------ static size (bits) or None
    def static_bits_decl(self, id, _depth=0):
        """Total constant bit size of a type (own + ancestors + payload) or None."""
        if id in self._static:
            return self._static[id]
        if _depth > 40:
            return None
        d = self.dm[id]
        k = d["kind"]
        if k in ("enum_declaration", "checksum_declaration"):
            r = d["width"]
        elif k == "custom_field_declaration":
            r = d.get("width")
        else:
            r = 0
            for x in self.chain(d):
                for i, fl in enumerate(x["fields"]):
                    if x is not d and fl["kind"] in ("payload_field", "body_field"):
                        continue   # an ancestor's payload is what holds the descendant's fields
                    s = self.static_bits_field(x, i, _depth + 1)
                    if s is None:
                        r = None
                        break
                    r += s
                if r is None:
                    break
        self._static[id] = r
        return r

    def static_bits_field(self, d, idx, _depth=0):
        fl = d["fields"][idx]
        k = fl["kind"]
        if fl.get("cond") is not None:
            return None
        if k in ("padding_field", "checksum_field"):
            return 0
        if k in ("payload_field", "body_field"):
            return None
        if k == "array_field":
            pad = self.padding_after(d, idx)
            if pad is not None:
                return 8 * pad
            if fl.get("size") is None:
                return None
            if fl.get("width") is not None:
                return fl["width"] * fl["size"]
            es = self.static_bits_decl(fl["type_id"], _depth + 1)
            return None if es is None else es * fl["size"]
        if k == "typedef_field":
            return self.static_bits_decl(fl["type_id"], _depth + 1)
        return self.bit_width(fl)

    def trailing_static_bytes(self, d, idx):
        """bytes occupied by the fields after index idx, or None if not constant."""
        tot = 0
        for j in range(idx + 1, len(d["fields"])):
            s = self.static_bits_field(d, j)
            if s is None:
                return None
            tot += s
        if tot % 8:
            return None
        return tot // 8

    # ------------------------------------------------------------ size classes (C16)
    # ('static', bits) | 'dynamic' | 'unknown', from the property's own wording: dynamic =
    # delimited by a size field, a count field or a condition flag (or an unsized custom
    # field); unknown = nothing delimits it.
    @staticmethod
    def _sum_class(parts):
        tot = 0
        dyn = False
        for p in parts:
            if p == "unknown":
                return "unknown"
            if p == "dynamic":
                dyn = True
            else:
                tot += p[1]
        return "dynamic" if dyn else ("static", tot)

    def class_field(self, d, idx, _depth=0):
        fl = d["fields"][idx]
        k = fl["kind"]
        if fl.get("cond") is not None:
            return "dynamic"
        if k in ("padding_field", "checksum_field"):
            return ("static", 0)
        if k in ("payload_field", "body_field"):
            return "dynamic" if self.payload_size_field(d) is not None else "unknown"
        if k == "typedef_field":
            return self.class_decl_total(fl["type_id"], _depth + 1)
        if k == "array_field":
            if fl.get("size") is not None:
                if fl.get("width") is not None:
                    return ("static", fl["width"] * fl["size"])
                e = self.class_decl_total(fl["type_id"], _depth + 1)
                if isinstance(e, tuple):
                    return ("static", e[1] * fl["size"])
                return e
            return "dynamic" if self.array_target(d, fl["id"]) is not None else "unknown"
        if k == "group_field":
            return self.class_decl_total(fl["group_id"], _depth + 1)
        return ("static", self.bit_width(fl))

    def class_decl_own(self, d, _depth=0):
        """(own fields without payload, with paddings at their declared size; payload class)"""
        parts = []
        payload = ("static", 0)
        for idx, fl in enumerate(d.get("fields", ())):
            c = self.class_field(d, idx, _depth)
            if fl["kind"] in ("payload_field", "body_field"):
                payload = c
                continue
            pad = self.padding_after(d, idx)
            parts.append(("static", 8 * pad) if pad is not None else c)
        return self._sum_class(parts), payload

    def class_decl_total(self, id, _depth=0):
        if _depth > 40:
            return "unknown"
        d = self.dm[id]
        k = d["kind"]
        if k in ("enum_declaration", "checksum_declaration"):
            return ("static", d["width"])
        if k == "custom_field_declaration":
            return ("static", d["width"]) if d.get("width") is not None else "dynamic"
        parts = []
        chain = self.chain(d)
        for x in chain:
            own, pl = self.class_decl_own(x, _depth)
            parts.append(own)
        # only the payload of the declaration itself stays open (ancestors' payloads hold it)
        parts.append(self.class_decl_own(d, _depth)[1])
        return self._sum_class(parts)

    # ------------------------------------------------------------ encode
    def encode(self, tid, v):
        """-> Enc; raises EncodeFault / Abstain. Range / overflow / consistency faults are
        collected over the whole value (EncodeFault.kinds lists them all, in model order);
        a value that cannot exist as the generated type (invalid-value) ends at once."""
        if self._soft is not None:
            return self._encode_inner(tid, v)
        self._soft = []
        try:
            e = self._encode_inner(tid, v)
            soft = self._soft
        finally:
            self._soft = None
        if soft:
            raise EncodeFault(soft[0][0], soft[0][1], kinds=[k for k, _ in soft])
        return e

    def _fault(self, kind, where):
        self._soft.append((kind, where))

    def _encode_inner(self, tid, v):
        d = self.dm[tid]
        k = d["kind"]
        if k == "custom_field_declaration":
            w = d.get("width")
            if w is None:
                raise Abstain("unsized custom field")
            if not isinstance(v, int) or v < 0:
                raise EncodeFault("invalid-value", tid)
            if v > umax(w):
                raise EncodeFault("invalid-value", tid)
            e = Enc()
            e.put_int(v, w // 8, self.big, "custom")
            return e
        if k not in ("packet_declaration", "struct_declaration"):
            raise Abstain("cannot encode a %s" % k)
        if not isinstance(v, dict):
            raise EncodeFault("invalid-value", tid)
        consts = {i: self.constraint_int(d, c) for i, c in self.all_constraints(d).items()}
        chain = self.chain(d)
        inner = None
        for x in reversed(chain):
            if inner is None:
                pl = None
                if A.get_payload(x) is not None:
                    pv = v.get("payload")
                    if not isinstance(pv, list) or any((not isinstance(b, int)) or b < 0 or b > 255 for b in pv):
                        raise EncodeFault("invalid-value", x["id"] + ".payload")
                    pl = Enc()
                    pl.data += bytes(pv)
                inner = self._encode_own(x, v, consts, pl)
            else:
                if A.get_payload(x) is None:
                    # child of a payload-less parent has no fields of its own
                    if len(inner.data):
                        raise Abstain("child fields without parent payload")
                    inner = self._encode_own(x, v, consts, None)
                else:
                    inner = self._encode_own(x, v, consts, inner)
        return inner

    def _get(self, v, id, where):
        if id not in v:
            raise EncodeFault("invalid-value", where + "." + id + " missing")
        return v[id]

    def _scalar_bytes(self, x, width, what, where, enc, check=True):
        if not isinstance(x, int) or isinstance(x, bool) or x < 0:
            raise EncodeFault("invalid-value", where)
        if x > umax(width):
            self._fault("scalar-range", where)
            x &= umax(width)
        enc.put_int(x, width // 8, self.big, what)

    def _enum_value(self, type_id, x, where):
        if not isinstance(x, int) or isinstance(x, bool) or not self.enum(type_id).valid(x):
            raise EncodeFault("invalid-value", where)
        return x

    def _encode_elements(self, d, fl, arr, where):
        """-> list of Enc, one per element"""
        out = []
        if not isinstance(arr, list):
            raise EncodeFault("invalid-value", where)
        for n, x in enumerate(arr):
            e = Enc()
            if fl.get("width") is not None:
                self._scalar_bytes(x, fl["width"], "elem", "%s[%d]" % (where, n), e)
            else:
                tk = self.kind(fl["type_id"])
                if tk == "enum_declaration":
                    w = self.dm[fl["type_id"]]["width"]
                    if w % 8:
                        raise Abstain("enum array element not byte sized")
                    e.put_int(self._enum_value(fl["type_id"], x, where), w // 8, self.big, "elem")
                else:
                    e = self.encode(fl["type_id"], x)
            out.append(e)
        return out

    def _encode_own(self, d, v, consts, payload):
        """Encode the fields declared by d itself. payload: Enc or None."""
        where = d["id"]
        out = Enc()
        flags = self.flags_of(d)
        bits = []  # (value, width, what, path)
        fields = d["fields"]

        def flush():
            tot = sum(w for _, w, _, _ in bits)
            if tot == 0:
                return
            if tot % 8:
                raise Abstain("bit-field group not ending on a byte boundary")
            acc = 0
            sh = 0
            base = len(out.data)
            for val, w, what, path in bits:
                acc |= (val & umax(w)) << sh
                out.marks.append((what, path, base, sh, w, tot // 8))
                sh += w
            out.put_int(acc, tot // 8, self.big, "group")
            bits.clear()

        def cur_bits():
            return sum(w for _, w, _, _ in bits)

        # pre-compute array element encodings (size / count / elementsize need them)
        elems = {}
        for fl in fields:
            if fl["kind"] == "array_field":
                elems[fl["id"]] = self._encode_elements(d, fl, self._get(v, fl["id"], where), where + "." + fl["id"])

        for idx, fl in enumerate(fields):
            k = fl["kind"]
            i = A.field_id(fl)
            w_here = where + "." + (i or k)
            if fl.get("cond") is not None:
                if cur_bits() % 8:
                    raise Abstain("optional field not byte aligned")
                flush()
                x = self._get(v, i, where)
                if x is None:
                    out.ext.append((d["id"], idx, 0, 0))
                    continue
                n0 = len(out.data)
                if k == "scalar_field":
                    self._scalar_bytes(x, fl["width"], "opt", w_here, out)
                elif self.kind(fl["type_id"]) == "enum_declaration":
                    w = self.dm[fl["type_id"]]["width"]
                    out.put_int(self._enum_value(fl["type_id"], x, w_here), w // 8, self.big, "opt")
                else:
                    out.extend(self.encode(fl["type_id"], x))
                out.ext.append((d["id"], idx, 8 * (len(out.data) - n0), 8 * (len(out.data) - n0)))
                continue
            if self.is_bitfield(fl):
                w = self.bit_width(fl)
                out.ext.append((d["id"], idx, w, w))
                if k == "scalar_field" and i in flags:
                    vals = set()
                    for (oid, cv) in flags[i]:
                        present = self._get(v, oid, where) is not None
                        vals.add(cv if present else 1 - cv)
                    if len(vals) != 1:
                        self._fault("condition", w_here)
                    if w != 1:
                        raise Abstain("flag wider than one bit")
                    bits.append((vals.pop(), 1, "flag", i))
                elif k == "scalar_field":
                    if i in consts:
                        x = consts[i]
                    else:
                        x = self._get(v, i, where)
                        if not isinstance(x, int) or isinstance(x, bool) or x < 0:
                            raise EncodeFault("invalid-value", w_here)
                        if x > umax(w):
                            self._fault("scalar-range", w_here)
                    bits.append((x, w, "scalar", i))
                elif k == "typedef_field":
                    if i in consts:
                        x = consts[i]
                    else:
                        x = self._enum_value(fl["type_id"], self._get(v, i, where), w_here)
                    bits.append((x, w, "enum", i))
                elif k == "fixed_field":
                    if "enum_id" in fl:
                        x = self.enum(fl["enum_id"]).tag_values.get(fl["tag_id"])
                        if x is None:
                            raise Abstain("fixed enum names a range/default tag")
                    else:
                        x = fl["value"]
                    bits.append((x, w, "fixed", None))
                elif k == "reserved_field":
                    bits.append((0, w, "reserved", None))
                elif k == "size_field":
                    t = fl["field_id"]
                    if t in ("_payload_", "_body_"):
                        plf = A.get_payload(d)
                        n = len(payload.data) if payload is not None else 0
                        mod = plf.get("size_modifier") if plf else None
                        if mod:
                            n += int(mod)
                    else:
                        n = sum(len(e.data) for e in elems[t])
                        tf = next(f2 for f2 in fields if A.field_id(f2) == t)
                        if tf.get("size_modifier"):
                            n += int(tf["size_modifier"])
                    if n > umax(w):
                        self._fault("size-overflow", w_here)
                    bits.append((n, w, "size", t))
                elif k == "count_field":
                    n = len(elems[fl["field_id"]])
                    if n > umax(w):
                        self._fault("count-overflow", w_here)
                    bits.append((n, w, "count", fl["field_id"]))
                elif k == "elementsize_field":
                    es = elems[fl["field_id"]]
                    n = len(es[0].data) if es else 0
                    if any(len(e.data) != n for e in es):
                        self._fault("element-size", w_here)
                    if n > umax(w):
                        self._fault("size-overflow", w_here)
                    bits.append((n, w, "elementsize", fl["field_id"]))
                if cur_bits() % 8 == 0:
                    flush()
                continue
            # non bit-field: must start on a byte boundary
            if cur_bits():
                raise Abstain("field not byte aligned")
            if k == "typedef_field":
                tk = self.kind(fl["type_id"])
                if tk == "checksum_declaration":
                    raise Abstain("checksum")
                x = consts[i] if i in consts else self._get(v, i, where)
                n0 = len(out.data)
                out.extend(self.encode(fl["type_id"], x))
                out.ext.append((d["id"], idx, 8 * (len(out.data) - n0), 8 * (len(out.data) - n0)))
            elif k == "array_field":
                es = elems[i]
                if fl.get("size") is not None and len(es) != fl["size"]:
                    raise EncodeFault("invalid-value", w_here + " static count")
                start = len(out.data)
                for e in es:
                    out.extend(e)
                pad = self.padding_after(d, idx)
                if pad is not None:
                    n = len(out.data) - start
                    if n > pad:
                        self._fault("size-overflow", w_here + " padding")
                    else:
                        out.data += bytes(pad - n)
                    out.ext.append((d["id"], idx, 8 * n, 8 * (len(out.data) - start)))
                else:
                    out.ext.append((d["id"], idx, 8 * (len(out.data) - start), 8 * (len(out.data) - start)))
            elif k in ("payload_field", "body_field"):
                n0 = len(out.data)
                if payload is not None:
                    out.extend(payload)
                out.ext.append((d["id"], idx, 8 * (len(out.data) - n0), 8 * (len(out.data) - n0)))
            elif k == "padding_field":
                pass
            elif k == "checksum_field":
                raise Abstain("checksum")
            else:
                raise Abstain("field kind %s" % k)
        if cur_bits():
            raise Abstain("declaration not byte sized")
        return out

    # ------------------------------------------------------------ decode
    def decode(self, tid, data, full=True):
        """-> (value, consumed). Raises DecodeFault / Abstain."""
        st = _DecState()
        self.last_state = st
        v, n = self._decode(tid, bytes(data), st, 0)
        if full and n != len(data):
            st.faults.append("trailing")
        if st.faults:
            e = DecodeFault(st.faults, st.where)
            e.in_array = st.first_in_array
            raise e
        return v, n

    def _decode(self, tid, data, st, depth):
        if depth > 200:
            raise Abstain("recursion depth")
        d = self.dm[tid]
        k = d["kind"]
        if k == "custom_field_declaration":
            w = d.get("width")
            if w is None:
                raise Abstain("unsized custom field")
            n = w // 8
            if len(data) < n:
                st.fail("length", tid)
            return int.from_bytes(data[:n], "big" if self.big else "little"), n
        if k not in ("packet_declaration", "struct_declaration"):
            raise Abstain("cannot decode a %s" % k)
        chain = self.chain(d)
        vals = {}
        consumed = None
        payload = None
        has_payload = False
        for lvl, x in enumerate(chain):
            if lvl == 0:
                vals, payload, consumed = self._decode_own(x, data, st, depth)
                has_payload = A.get_payload(x) is not None
            else:
                for c in x.get("constraints", ()):
                    want = self.constraint_int(x, c)
                    if vals.get(c["id"]) != want:
                        st.value_fault("constraint", x["id"] + "." + c["id"])
                if has_payload:
                    v2, p2, n2 = self._decode_own(x, payload, st, depth)
                    if n2 != len(payload):
                        st.fail("trailing", x["id"])
                    vals.update(v2)
                    payload = p2
                    has_payload = A.get_payload(x) is not None
                else:
                    if x["fields"]:
                        raise Abstain("child fields without parent payload")
                    payload = None
                    has_payload = False
        cons = self.all_constraints(d)
        out = {}
        for fl, owner in self.data_fields(d):
            out[fl["id"]] = vals[fl["id"]]
        if A.get_payload(d) is not None:
            out["payload"] = list(payload)
        return out, consumed

    def _decode_own(self, d, data, st, depth):
        """Parse d's own fields from data. -> (vals incl. flags/consts, payload bytes|None, consumed)"""
        where = d["id"]
        pos = 0
        vals = {}
        sizes = {}
        counts = {}
        esizes = {}
        payload = None
        fields = d["fields"]
        flags = self.flags_of(d)
        bits = []

        def need(n, what):
            if len(data) - pos < n:
                st.fail("length", what)

        idx = 0
        while idx < len(fields):
            fl = fields[idx]
            k = fl["kind"]
            i = A.field_id(fl)
            w_here = where + "." + (i or k)
            if fl.get("cond") is not None:
                c = fl["cond"]
                present = vals.get(c["id"]) == c["value"]
                if not present:
                    vals[i] = None
                elif k == "scalar_field":
                    n = fl["width"] // 8
                    need(n, w_here)
                    vals[i] = int.from_bytes(data[pos:pos + n], "big" if self.big else "little")
                    pos += n
                elif self.kind(fl["type_id"]) == "enum_declaration":
                    n = self.dm[fl["type_id"]]["width"] // 8
                    need(n, w_here)
                    x = int.from_bytes(data[pos:pos + n], "big" if self.big else "little")
                    pos += n
                    if not self.enum(fl["type_id"]).valid(x):
                        st.value_fault("enum", w_here)
                    vals[i] = x
                else:
                    x, n = self._decode(fl["type_id"], data[pos:], st, depth + 1)
                    vals[i] = x
                    pos += n
                idx += 1
                continue
            if self.is_bitfield(fl):
                # gather the chunk: fields up to the first byte boundary
                j = idx
                tot = 0
                chunk = []
                while j < len(fields) and self.is_bitfield(fields[j]):
                    w = self.bit_width(fields[j])
                    chunk.append((fields[j], tot, w))
                    tot += w
                    j += 1
                    if tot % 8 == 0:
                        break
                if tot % 8:
                    raise Abstain("bit-field group not ending on a byte boundary")
                n = tot // 8
                need(n, where)
                word = int.from_bytes(data[pos:pos + n], "big" if self.big else "little")
                pos += n
                for f2, sh, w in chunk:
                    x = (word >> sh) & umax(w)
                    k2 = f2["kind"]
                    i2 = A.field_id(f2)
                    if k2 == "scalar_field":
                        vals[i2] = x
                    elif k2 == "typedef_field":
                        if not self.enum(f2["type_id"]).valid(x):
                            st.value_fault("enum", where + "." + i2)
                        vals[i2] = x
                    elif k2 == "fixed_field":
                        if "enum_id" in f2:
                            want = self.enum(f2["enum_id"]).tag_values.get(f2["tag_id"])
                            if want is None:
                                raise Abstain("fixed enum names a range/default tag")
                        else:
                            want = f2["value"]
                        if x != want:
                            st.value_fault("fixed", where)
                    elif k2 == "size_field":
                        sizes[f2["field_id"]] = x
                    elif k2 == "count_field":
                        counts[f2["field_id"]] = x
                    elif k2 == "elementsize_field":
                        esizes[f2["field_id"]] = x
                idx = j
                continue
            if k == "typedef_field":
                tk = self.kind(fl["type_id"])
                if tk == "checksum_declaration":
                    raise Abstain("checksum")
                if tk == "custom_field_declaration" and self.dm[fl["type_id"]].get("width") is not None:
                    need(self.dm[fl["type_id"]]["width"] // 8, w_here)
                x, n = self._decode(fl["type_id"], data[pos:], st, depth + 1)
                vals[i] = x
                pos += n
            elif k == "array_field":
                pad = self.padding_after(d, idx)
                if pad is not None:
                    need(pad, w_here)
                    region = data[pos:pos + pad]
                    after = pos + pad
                else:
                    region = data[pos:]
                    after = None
                arr, used = self._decode_array(d, fl, region, sizes, counts, esizes, st, depth,
                                               padded=pad is not None)
                vals[i] = arr
                pos = after if after is not None else pos + used
            elif k in ("payload_field", "body_field"):
                sf = self.payload_size_field(d)
                if sf is not None:
                    n = sizes[sf["field_id"]]
                    mod = fl.get("size_modifier")
                    if mod:
                        if n < int(mod):
                            st.fail("length", w_here + " !size-below-modifier")
                        n -= int(mod)
                    need(n, w_here)
                else:
                    tail = self.trailing_static_bytes(d, idx)
                    if tail is None:
                        raise Abstain("payload of unknown size followed by non-constant fields")
                    need(tail, w_here)
                    n = len(data) - pos - tail
                payload = data[pos:pos + n]
                pos += n
            elif k == "padding_field":
                pass
            else:
                raise Abstain("field kind %s" % k)
            idx += 1
        return vals, payload, pos

    def _decode_array(self, d, fl, region, sizes, counts, esizes, st, depth, padded):
        """-> (list, bytes used from region)"""
        i = fl["id"]
        where = d["id"] + "." + i
        big = "big" if self.big else "little"
        # element reader
        if fl.get("width") is not None:
            ew = fl["width"] // 8
            kind = "scalar"
        else:
            tk = self.kind(fl["type_id"])
            if tk == "enum_declaration":
                if self.dm[fl["type_id"]]["width"] % 8:
                    raise Abstain("enum array element not byte sized")
                ew = self.dm[fl["type_id"]]["width"] // 8
                kind = "enum"
            else:
                sb = self.static_bits_decl(fl["type_id"])
                ew = None if sb is None else sb // 8
                kind = "type"

        def read_elem(buf):
            """-> (value, used)"""
            st.array_depth += 1
            try:
                return read_elem_(buf)
            finally:
                st.array_depth -= 1

        def read_elem_(buf):
            if kind == "scalar":
                if len(buf) < ew:
                    st.fail("length", where)
                return int.from_bytes(buf[:ew], big), ew
            if kind == "enum":
                if len(buf) < ew:
                    st.fail("length", where)
                x = int.from_bytes(buf[:ew], big)
                if not self.enum(fl["type_id"]).valid(x):
                    st.value_fault("enum", where)
                return x, ew
            return self._decode(fl["type_id"], buf, st, depth + 1)

        esf = self.elementsize_of(d, i)
        tgt = self.array_target(d, i)
        static_count = fl.get("size")
        mod = int(fl["size_modifier"]) if fl.get("size_modifier") else 0

        def span_by_size():
            n = sizes[i]
            if mod:
                if n < mod:
                    st.fail("length", where + " !size-below-modifier")
                n -= mod
            if len(region) < n:
                st.fail("length", where)
            return n

        if esf is not None and ew is None:
            # every element occupies exactly `es` octets
            es = esizes[i]
            if es == 0:
                st.saw_element_size_0 = True   # (workload shaping only: see cxxwl)
            if static_count is not None:
                n = static_count
            elif tgt is not None and tgt["kind"] == "count_field":
                n = counts[i]
            else:
                if tgt is not None:
                    tot = span_by_size()
                else:
                    if padded:
                        raise Abstain("padded array without size or count")
                    tot = len(region)
                if es == 0:
                    if tot == 0:
                        return [], 0
                    raise Abstain("element size 0")
                if tot % es:
                    st.fail("array-size", where)
                n = tot // es
            if es == 0 and n > 0:
                raise Abstain("element size 0")
            if len(region) < n * es:
                st.fail("length", where)
            out = []
            for j in range(n):
                chunk = region[j * es:(j + 1) * es]
                x, used = read_elem(chunk)
                if used != len(chunk):
                    st.fail("trailing-in-array", where)
                out.append(x)
            return out, n * es

        if static_count is not None or (tgt is not None and tgt["kind"] == "count_field"):
            n = static_count if static_count is not None else counts[i]
            if ew is not None:
                if len(region) < n * ew:
                    st.fail("length", where)
            out = []
            pos = 0
            for _ in range(n):
                x, used = read_elem(region[pos:])
                out.append(x)
                pos += used
            return out, pos

        if tgt is not None:
            tot = span_by_size()
        else:
            if padded:
                raise Abstain("padded array without size or count")
            tot = len(region)
        buf = region[:tot]
        if ew is not None:
            if ew == 0:
                raise Abstain("zero-sized element")
            if tot % ew:
                st.fail("array-size", where)
        out = []
        pos = 0
        while pos < len(buf):
            x, used = read_elem(buf[pos:])
            if used == 0:
                raise Abstain("zero-progress element")
            out.append(x)
            pos += used
        return out, tot

    # ------------------------------------------------------------ canonical form
    def canonical(self, tid, data):
        """Re-encoding of an accepted input: reserved bits and padding cleared."""
        v, _ = self.decode(tid, data)
        return bytes(self.encode(tid, v).data)

    # ------------------------------------------------------------ specialization
    def descendants(self, id):
        out = []
        for c in A.children_of(self.file, id):
            out.append(c)
            out.extend(self.descendants(c["id"]))
        return out

    def specialize_cases(self, pid):
        """child id -> list of (constraints {field id: int} on pid's data fields, static byte
        size of the selected declaration's own fields + payload, or None)."""
        p = self.dm[pid]
        pfields = {fl["id"] for fl, _ in self.data_fields(p)}
        out = {}

        def own_size(x):
            tot = 0
            for i in range(len(x["fields"])):
                sb = self.static_bits_field(x, i)
                if sb is None:
                    return None
                tot += sb
            return tot // 8 if tot % 8 == 0 else None

        def gather(x, top, cons):
            cons = dict(cons)
            for c in x.get("constraints", ()):
                if c["id"] in pfields:
                    cons[c["id"]] = self.constraint_int(x, c)
            for y in A.children_of(self.file, x["id"]):
                gather(y, top, cons)
            out.setdefault(top, []).append((cons, own_size(x)))
        for c in A.children_of(self.file, pid):
            gather(c, c["id"], {})
        return out

    def specialize(self, pid, pv):
        """Admissible outcomes of specialize() on parent value pv.
        -> (set of ('child', id) | ('none',) | ('err',), {id: expected child value}, widened?)
        The set has more than one member only where the property text leaves the outcome open
        (see DESIGN E2.1): an unconstrained child, overlapping constraint tuples, or a
        constraint match whose constant size differs from the payload length."""
        cases = self.specialize_cases(pid)
        keys = {}
        with_size = False
        for cid, lst in cases.items():
            for cons, size in lst:
                k = tuple(sorted(cons.items()))
                if k in keys and keys[k] != cid:
                    with_size = True
                keys.setdefault(k, cid)
        plen = len(pv.get("payload", []))
        outcomes = set()
        expected = {}
        widened = False

        def holds(cons):
            return all(pv.get(i) == v for i, v in cons.items())

        def try_child(cid):
            try:
                cv = self.child_from_parent(cid, pid, pv)
                outcomes.add(("child", cid))
                expected[cid] = cv
            except DecodeFault:
                outcomes.add(("err",))

        matched = []
        open_children = []
        size_miss = False
        for cid, lst in cases.items():
            hit = False
            for cons, size in lst:
                if not holds(cons):
                    continue
                sized = with_size and size is not None
                if not cons and not sized:
                    if cid not in open_children:
                        open_children.append(cid)
                    continue
                if sized and size != plen:
                    size_miss = True
                    continue
                hit = True
            if hit:
                matched.append(cid)
        for cid in matched:
            try_child(cid)
        if len(matched) > 1:
            widened = True
        if not matched and size_miss:
            # constraints match some child, no child's constant size does: the property reads as
            # "error", the documented match-on-length as "None". (When a sibling matches on
            # constraints *and* size there is nothing open: it is that child.)
            outcomes.add(("err",))
            widened = True
        if not matched:
            outcomes.add(("none",))
            for cid in open_children:
                widened = True
                try_child(cid)
        return outcomes, expected, widened

    def child_from_parent(self, cid, pid, pv):
        """Child::try_from(parent value): -> child value or DecodeFault."""
        c = self.dm[cid]
        chain = self.chain(c)
        ids = [x["id"] for x in chain]
        k = ids.index(pid)
        st = _DecState()
        p = self.dm[pid]
        pcons = {i: self.constraint_int(p, cc) for i, cc in self.all_constraints(p).items()}
        vals = dict(pcons)
        vals.update({i: x for i, x in pv.items() if i != "payload"})
        payload = bytes(pv.get("payload", []))
        has_payload = A.get_payload(p) is not None
        for x in chain[k + 1:]:
            for cc in x.get("constraints", ()):
                if vals.get(cc["id"]) != self.constraint_int(x, cc):
                    st.value_fault("constraint", x["id"] + "." + cc["id"])
            if has_payload:
                v2, p2, n2 = self._decode_own(x, payload, st, 0)
                if n2 != len(payload):
                    st.fail("trailing", x["id"])
                vals.update(v2)
                payload = p2
                has_payload = A.get_payload(x) is not None
            else:
                if x["fields"]:
                    raise Abstain("child fields without parent payload")
                has_payload = False
        if st.faults:
            raise DecodeFault(st.faults, st.where)
        out = {}
        for fl, owner in self.data_fields(c):
            out[fl["id"]] = vals[fl["id"]]
        if A.get_payload(c) is not None:
            out["payload"] = list(payload)
        return out

    def parent_from_child(self, pid, cid, cv):
        """Parent::try_from(child value) -> parent value (constraint values filled in,
        payload = the child's partial encoding)."""
        c = self.dm[cid]
        p = self.dm[pid]
        consts = {i: self.constraint_int(c, cc) for i, cc in self.all_constraints(c).items()}
        chain = self.chain(c)
        ids = [x["id"] for x in chain]
        k = ids.index(pid)
        inner = None
        for x in reversed(chain[k + 1:]):
            if inner is None:
                pl = None
                if A.get_payload(x) is not None:
                    pl = Enc()
                    pl.data += bytes(cv.get("payload", []))
                inner = self._encode_own(x, cv, consts, pl)
            else:
                inner = self._encode_own(x, cv, consts, inner if A.get_payload(x) is not None else None)
        out = {}
        pcons = self.all_constraints(p)
        for fl, owner in self.data_fields(p):
            i = fl["id"]
            out[i] = consts[i] if i in consts else cv[i]
        if A.get_payload(p) is not None:
            out["payload"] = list(inner.data) if inner is not None else []
        return out


class _DecState:
    def __init__(self):
        self.faults = []
        self.where = ""
        self.saw_element_size_0 = False
        self.array_depth = 0      # > 0 while an array element is being decoded
        self.first_in_array = False

    def value_fault(self, kind, where):
        if not self.faults:
            self.where = where
            self.first_in_array = self.array_depth > 0
        self.faults.append(kind)

    def fail(self, kind, where):
        if not self.faults:
            self.where = where
            self.first_in_array = self.array_depth > 0
        self.faults.append(kind)
        e = DecodeFault(self.faults, self.where)
        e.in_array = self.first_in_array
        raise e


def swap_endianness(data, segs):
    """Bytes of the twin-endianness encoding predicted from the segment map."""
    b = bytearray(data)
    for s in segs:
        b[s.off:s.off + s.len] = bytes(reversed(data[s.off:s.off + s.len]))
    return bytes(b)
