"""./verif setup — build everything that does not depend on the seed, offline, from disk."""
from __future__ import annotations

import sys
import time

from . import corpus, selfcheck
from .engines import build


def main():
    t0 = time.time()
    s = selfcheck.run()
    print("oracle self-check: %d vectors, %d encode ok, %d decode ok, %d expected errors ok, %d outside model, %d mismatches"
          % (s["vectors"], s["encode_ok"], s["decode_ok"], s["error_ok"], s["abstained"], len(s["mismatches"])))
    if s["mismatches"]:
        print("oracle self-check FAILED", s["mismatches"][:5])
        return 1
    print("pdlc:", build.pdlc())
    print("driver:", build.driver())
    # warm the cargo caches of the Rust harness (dependencies, support crate) in both flavours
    from .engines.rs import RustCorpus
    ds = corpus.descriptions(0, 1, profiles=["bitfield"])[:1]
    rc = RustCorpus("warmup", ds)
    rc.generate()
    for fl in ("dev", "release"):
        print("harness", fl, rc.build(fl))
    print("setup done in %.1fs" % (time.time() - t0))
    return 0


if __name__ == "__main__":
    sys.exit(main())
