#!/bin/bash
# quick iteration: apply seeded/<id>/patch.diff to a scratch worktree and run the named checks against it
# (no suite / demo run; tools_seeded.py does the full protocol). usage: tools_seedcheck.sh <id> <check> [...]
id=$1; shift
wt=/tmp/ev2/$id
git -C /repo worktree remove --force $wt 2>/dev/null; rm -rf $wt; mkdir -p /tmp/ev2
git -C /repo worktree add -q --detach $wt HEAD || exit 3
git -C $wt apply /verif/seeded/$id/patch.diff || { echo "patch does not apply"; git -C /repo worktree remove --force $wt; exit 3; }
cp /repo/Cargo.lock $wt/Cargo.lock
cd /verif
mkdir -p work/logs
: > work/logs/recheck-$id.txt
for c in "$@"; do
  VERIF_REPO=$wt ./verif check $c --tier ${SEED_TIER:-quick} 2>/dev/null | grep -E "^(VIOLATION|INCONCLUSIVE|$c:)" | cut -c1-400 | tee -a work/logs/recheck-$id.txt
done
tag=alt-$(python3 -c "import hashlib,sys;print(hashlib.sha1(sys.argv[1].encode()).hexdigest()[:10])" $wt)
rm -rf work/target-$tag work/target-$tag-rs work/driver-$tag work/rs/$tag work/py/$tag work/cxx/$tag work/java/$tag work/build-rs-$tag.lock
git -C /repo worktree remove --force $wt; rm -rf $wt
git checkout -- evidence 2>/dev/null
