#!/usr/bin/env python3
"""Merge the result of tools_seeded.py runs (work/logs/seed-<id>.json) into seeded/<id>/meta.json under
the key `evaluation` (what was run, with what result)."""
import glob, json, os, sys
for f in sorted(glob.glob('/verif/work/logs/seed-*.json')):
    t = open(f).read()
    i = t.find('{')
    if i < 0:
        continue
    try:
        r = json.loads(t[i:])
    except ValueError:
        continue
    sid = os.path.basename(r['dir'])
    mp = os.path.join('/verif/seeded', sid, 'meta.json')
    if not os.path.exists(mp):
        continue
    try:
        meta = json.load(open(mp))
    except ValueError:
        meta = {"note": "meta.json of the sub-agent was not valid JSON"}
    ev = {"ran": "tools_seeded.py seeded/%s %s (scratch worktree of /repo HEAD + patch; pinned suite; demo on patched and clean tree; checks with VERIF_REPO=<scratch>, quick tier, VERIF_SEED=1)" % (sid, r['property']),
          "patch_applies": r.get('applies'), "pinned_suite_with_patch": r.get('suite'),
          "demo_rc_on_patched_tree": r.get('demo_on_patched_rc'), "demo_rc_on_clean_tree": r.get('demo_on_clean_rc'),
          "checks": {k[6:]: {"exit": v['rc'], "wall_s": v['wall'], "lines": v['lines'][:6]} for k, v in r.items() if k.startswith('check_')}}
    rp = '/verif/work/logs/recheck-%s.txt' % sid
    if os.path.exists(rp):
        lines = [l.strip() for l in open(rp) if l.strip()]
        ev["recheck_after_strengthening"] = {"ran": "tools_seedcheck.sh %s <checks> (scratch worktree + patch, checks only, quick tier)" % sid,
                                             "lines": lines[:8]}
    meta['evaluation'] = ev
    json.dump(meta, open(mp, 'w'), indent=1)
    print(sid, {k: v['exit'] for k, v in ev['checks'].items()})
