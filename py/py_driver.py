#!/usr/bin/env python3
"""Serves a freshly generated PDL Python module over JSON lines (one module per process).

argv: <module dir> <module name>
requests: {"op": "parse", "t": cls, "hex": ...} | {"op": "serialize", "t": cls, "value": json}
          | {"op": "from_int", "t": enum, "lo": a, "hi": b} | {"op": "types"}
Every call returns either a value or the exception as data: {"exc": qualified class, "mro": [...], "msg": ...}
— the *checker* decides whether that class is allowed, never this driver."""
import dataclasses
import enum
import importlib
import json
import sys
import typing

sys.setrecursionlimit(3000)
moddir, modname = sys.argv[1], sys.argv[2]
sys.path.insert(0, moddir)
try:
    mod = importlib.import_module(modname)
    import_error = None
except BaseException as e:  # noqa
    mod = None
    import_error = {"exc": type(e).__name__, "msg": str(e)[:2000]}


def exc_json(e):
    return {"exc": type(e).__module__.replace(modname, "gen") + "." + type(e).__name__,
            "mro": [c.__name__ for c in type(e).__mro__], "msg": str(e)[:300]}


def to_json(v):
    if v is None:
        return None
    if isinstance(v, enum.Enum):
        return int(v)
    if isinstance(v, bool):
        return int(v)
    if isinstance(v, int):
        return v
    if isinstance(v, (bytes, bytearray)):
        return list(v)
    if isinstance(v, (list, tuple)):
        return [to_json(x) for x in v]
    if dataclasses.is_dataclass(v) and hasattr(v, "__dataclass_fields__") and not hasattr(v, "_pv_custom"):
        return {f.name: to_json(getattr(v, f.name)) for f in dataclasses.fields(v)}
    if hasattr(v, "_pv_custom"):
        return v.value
    return {"__repr__": repr(v)[:200]}


def create_object(typ, value):
    if hasattr(typ, "_pv_custom"):
        return typ(value)
    if dataclasses.is_dataclass(typ):
        ftypes = {f.name: f.type for f in dataclasses.fields(typ)}
        vals = {}
        for k, v in value.items():
            if k not in ftypes:
                raise KeyError("no such field %s in %s" % (k, typ.__name__))
            vals[k] = create_object(ftypes[k], v)
        return typ(**vals)
    origin = typing.get_origin(typ)
    if origin is list:
        et = typing.get_args(typ)[0]
        return [create_object(et, v) for v in value]
    if origin is typing.Union:
        if value is None:
            return None
        return create_object(typing.get_args(typ)[0], value)
    if typ is bytes:
        return bytes(value) if value is not None else None
    if typ is bytearray:
        return bytearray(value)
    if isinstance(typ, type) and issubclass(typ, enum.Enum):
        return typ.from_int(value)
    if typ is int:
        return value
    raise TypeError("unsupported annotation %r" % (typ,))


def handle(req):
    if mod is None:
        return {"import_error": import_error}
    op = req["op"]
    if op == "parse":
        cls = getattr(mod, req["t"])
        data = bytes.fromhex(req["hex"])
        try:
            obj = cls.parse_all(data)
        except RecursionError as e:
            return exc_json(e)
        except Exception as e:  # noqa
            return exc_json(e)
        return {"ok": to_json(obj), "class": type(obj).__name__}
    if op == "serialize":
        cls = getattr(mod, req["t"])
        try:
            obj = create_object(cls, req["value"])
        except Exception as e:  # noqa
            return {"construct_exc": exc_json(e)}
        out = {}
        try:
            b = obj.serialize()
            out["ok"] = bytes(b).hex()
        except Exception as e:  # noqa
            out.update(exc_json(e))
        try:
            out["size"] = obj.size
        except Exception as e:  # noqa
            out["size_exc"] = exc_json(e)
        return out
    if op == "from_int":
        cls = getattr(mod, req["t"])
        runs = []
        for x in range(req["lo"], req["hi"] + 1):
            try:
                v = cls.from_int(x)
                if isinstance(v, enum.Enum):
                    c = "O:" + v.name + ("" if int(v) == x else ":b")
                else:
                    c = "I" if v == x else "I:b"
            except Exception as e:  # noqa
                c = "X:" + type(e).__name__
            if runs and runs[-1][2] == c and runs[-1][1] + 1 == x:
                runs[-1][1] = x
            else:
                runs.append([x, x, c])
        return {"runs": runs}
    if op == "types":
        return {"types": [n for n in dir(mod) if isinstance(getattr(mod, n), type)]}
    return {"error": "unknown op"}


for line in sys.stdin:
    line = line.strip()
    if not line:
        continue
    req = json.loads(line)
    try:
        resp = handle(req)
    except BaseException as e:  # noqa
        resp = {"driver_error": type(e).__name__ + ": " + str(e)[:500]}
    resp["id"] = req.get("id")
    sys.stdout.write(json.dumps(resp) + "\n")
    sys.stdout.flush()
