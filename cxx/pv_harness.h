// Support code of the generated C++ harness drivers (pv/engines/cxx.py).
//
// Protocol (all on stdout, one line each, flushed):
//   <bin> parse <start>        stdin: lines "<type> <hex>"; for the k-th line (k counted from
//                              <start>) prints "BEGIN k" and then one JSON line
//   <bin> ser <start>          for every build-side entry k >= start: "BEGIN k", one JSON line
//   <bin> enum <id> <lo> <hi>  one JSON line: run-length encoded validity over [lo, hi]
// "DONE" is printed when a parse / ser loop ends normally. A death between "BEGIN k" and its
// JSON line is attributed to entry k by the python side, which restarts at k + 1.
#pragma once

#include <array>
#include <csignal>
#include <cstdint>
#include <cstdio>
#include <cstdlib>
#include <cstring>
#include <exception>
#include <memory>
#include <optional>
#include <string>
#include <type_traits>
#include <typeinfo>
#include <vector>

#include <cxxabi.h>

#include <packet_runtime.h>

#if defined(__has_feature)
#if __has_feature(address_sanitizer)
#define PV_ASAN 1
#endif
#endif
#if defined(__SANITIZE_ADDRESS__) && !defined(PV_ASAN)
#define PV_ASAN 1
#endif

#ifdef PV_ASAN
extern "C" int __lsan_do_recoverable_leak_check(void);
extern "C" void __sanitizer_print_stack_trace(void);
#endif

namespace pv {

struct Out {
  std::string s;
  void raw(const char* t) { s += t; }
  void ch(char c) { s += c; }
  void u64(uint64_t v) {
    char b[24];
    snprintf(b, sizeof b, "%llu", (unsigned long long)v);
    s += b;
  }
  // keys are PDL identifiers: no escaping needed
  void key(const char* k) {
    s += '"';
    s += k;
    s += "\":";
  }
  void hex(std::vector<uint8_t> const& v) {
    static const char* d = "0123456789abcdef";
    for (uint8_t b : v) {
      s += d[b >> 4];
      s += d[b & 15];
    }
  }
};

template <typename T>
inline std::enable_if_t<std::is_integral_v<T>> pv_put(Out& o, T v) {
  o.u64(static_cast<uint64_t>(static_cast<std::make_unsigned_t<T>>(v)));
}

template <typename T>
inline std::enable_if_t<std::is_enum_v<T>> pv_put(Out& o, T v) {
  o.u64(static_cast<uint64_t>(static_cast<std::underlying_type_t<T>>(v)));
}

template <typename T>
inline void pv_put(Out& o, std::optional<T> const& v);
template <typename T>
inline void pv_put(Out& o, std::vector<T> const& v);
template <typename T, size_t N>
inline void pv_put(Out& o, std::array<T, N> const& v);

template <typename T>
inline void pv_put(Out& o, std::optional<T> const& v) {
  if (v.has_value()) {
    pv_put(o, *v);
  } else {
    o.raw("null");
  }
}

template <typename T>
inline void pv_put(Out& o, std::vector<T> const& v) {
  o.ch('[');
  bool first = true;
  for (auto const& e : v) {
    if (!first) o.ch(',');
    first = false;
    pv_put(o, e);
  }
  o.ch(']');
}

template <typename T, size_t N>
inline void pv_put(Out& o, std::array<T, N> const& v) {
  o.ch('[');
  for (size_t n = 0; n < N; n++) {
    if (n) o.ch(',');
    pv_put(o, v[n]);
  }
  o.ch(']');
}

inline int hexval(char c) {
  if (c >= '0' && c <= '9') return c - '0';
  if (c >= 'a' && c <= 'f') return c - 'a' + 10;
  if (c >= 'A' && c <= 'F') return c - 'A' + 10;
  return -1;
}

inline std::vector<uint8_t> unhex(const char* h) {
  std::vector<uint8_t> v;
  while (h[0] && h[1] && hexval(h[0]) >= 0 && hexval(h[1]) >= 0) {
    v.push_back(static_cast<uint8_t>(hexval(h[0]) * 16 + hexval(h[1])));
    h += 2;
  }
  return v;
}

inline pdl::packet::slice make_slice(std::vector<uint8_t> const& bytes) {
  return pdl::packet::slice(std::make_shared<const std::vector<uint8_t>>(bytes));
}

typedef void (*ParseFn)(std::vector<uint8_t> const&, Out&);
typedef void (*SerFn)(Out&);
typedef bool (*EnumFn)(uint64_t);

struct ParseEntry {
  const char* type;
  ParseFn fn;
};
struct SerChunk {
  const SerFn* fns;
  size_t len;
};
struct EnumEntry {
  const char* id;
  EnumFn fn;
  uint64_t backing_max;
};

inline void emit_ser(Out& o, std::vector<uint8_t> const& bytes, size_t size) {
  o.raw("{\"hex\":\"");
  o.hex(bytes);
  o.raw("\",\"size\":");
  o.u64(size);
  o.ch('}');
}

inline void line(std::string const& s) {
  fwrite(s.data(), 1, s.size(), stdout);
  fputc('\n', stdout);
  fflush(stdout);
}

inline void on_terminate() {
  // uncaught exception: name it, show where it was thrown from (no unwinding has happened
  // when no handler exists), die by SIGABRT like the default handler
  std::exception_ptr p = std::current_exception();
  const char* tn = "?";
  std::string what;
  if (p) {
    if (std::type_info* t = abi::__cxa_current_exception_type()) {
      int st = 0;
      char* dn = abi::__cxa_demangle(t->name(), nullptr, nullptr, &st);
      static std::string keep;
      keep = (st == 0 && dn) ? dn : t->name();
      free(dn);
      tn = keep.c_str();
    }
    try {
      std::rethrow_exception(p);
    } catch (std::exception const& e) {
      what = e.what();
    } catch (...) {
    }
  }
  fflush(stdout);
  fprintf(stderr, "PV-EXCEPTION: uncaught %s: %s\n", tn, what.c_str());
#ifdef PV_ASAN
  __sanitizer_print_stack_trace();
#endif
  fflush(stderr);
  signal(SIGABRT, SIG_DFL);
  abort();
}

inline bool leak_check_each() {
  const char* e = getenv("PV_LEAKCHECK");
  return e && e[0] == '1';
}

inline void after_entry() {
#ifdef PV_ASAN
  static const bool each = leak_check_each();
  if (each && __lsan_do_recoverable_leak_check()) {
    fflush(stdout);
    fprintf(stderr, "PV-LEAK: leak detected after this entry\n");
    fflush(stderr);
    _exit(23);
  }
#endif
}

inline int run_parse(const ParseEntry* tab, size_t ntab, unsigned long long k) {
  std::string ln;
  char buf[1 << 16];
  for (;;) {
    ln.clear();
    bool got = false;
    while (fgets(buf, sizeof buf, stdin)) {
      got = true;
      ln += buf;
      if (!ln.empty() && ln.back() == '\n') break;
    }
    if (!got) break;
    while (!ln.empty() && (ln.back() == '\n' || ln.back() == '\r')) ln.pop_back();
    size_t sp = ln.find(' ');
    std::string type = ln.substr(0, sp);
    std::vector<uint8_t> bytes = unhex(sp == std::string::npos ? "" : ln.c_str() + sp + 1);
    line("BEGIN " + std::to_string(k));
    Out o;
    ParseFn fn = nullptr;
    for (size_t n = 0; n < ntab; n++) {
      if (type == tab[n].type) {
        fn = tab[n].fn;
        break;
      }
    }
    if (fn == nullptr) {
      o.raw("{\"error\":\"unknown type\"}");
    } else {
      fn(bytes, o);
    }
    after_entry();
    line(o.s);
    k++;
  }
  line("DONE");
  return 0;
}

inline int run_ser(const SerChunk* chunks, size_t nchunks, unsigned long long start) {
  unsigned long long k = 0;
  for (size_t c = 0; c < nchunks; c++) {
    for (size_t n = 0; n < chunks[c].len; n++, k++) {
      if (k < start) continue;
      line("BEGIN " + std::to_string(k));
      Out o;
      chunks[c].fns[n](o);
      after_entry();
      line(o.s);
    }
  }
  line("DONE");
  return 0;
}

inline int run_enum(const EnumEntry* tab, size_t ntab, const char* id, unsigned long long lo,
                    unsigned long long hi) {
  for (size_t n = 0; n < ntab; n++) {
    if (strcmp(tab[n].id, id) != 0) continue;
    Out o;
    o.ch('[');
    bool have = false, cur = false, first = true;
    unsigned long long s = lo;
    for (unsigned long long v = lo;; v++) {
      // values the backing type cannot hold are not values of the C++ enum at all
      bool b = v <= tab[n].backing_max && tab[n].fn(v);
      if (!have) {
        have = true;
        cur = b;
        s = v;
      } else if (b != cur) {
        if (!first) o.ch(',');
        first = false;
        o.ch('[');
        o.u64(s);
        o.ch(',');
        o.u64(v - 1);
        o.raw(cur ? ",true]" : ",false]");
        cur = b;
        s = v;
      }
      if (v == hi) break;
    }
    if (have) {
      if (!first) o.ch(',');
      o.ch('[');
      o.u64(s);
      o.ch(',');
      o.u64(hi);
      o.raw(cur ? ",true]" : ",false]");
    }
    o.ch(']');
    line(o.s);
    return 0;
  }
  line("{\"error\":\"unknown enum\"}");
  return 0;
}

inline int run(int argc, char** argv, const ParseEntry* ptab, size_t nptab, const SerChunk* chunks,
               size_t nchunks, const EnumEntry* etab, size_t netab) {
  std::set_terminate(on_terminate);
  if (argc >= 3 && strcmp(argv[1], "parse") == 0) {
    return run_parse(ptab, nptab, strtoull(argv[2], nullptr, 10));
  }
  if (argc >= 3 && strcmp(argv[1], "ser") == 0) {
    return run_ser(chunks, nchunks, strtoull(argv[2], nullptr, 10));
  }
  if (argc >= 5 && strcmp(argv[1], "enum") == 0) {
    unsigned long long lo = strtoull(argv[3], nullptr, 10), hi = strtoull(argv[4], nullptr, 10);
    if (hi < lo) {
      line("[]");
      return 0;
    }
    return run_enum(etab, netab, argv[2], lo, hi);
  }
  fprintf(stderr, "usage: parse <start> | ser <start> | enum <id> <lo> <hi>\n");
  return 2;
}

}  // namespace pv
