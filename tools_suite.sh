#!/bin/bash
# run the pinned suite of $1 (default /repo) and print pass/fail totals
cd ${1:-/repo} && cargo test --workspace --no-fail-fast --offline 2>&1 | grep -E "^test result|FAILED|failed|panicked" | awk '/^test result/ {p+=$4; f+=$6} !/^test result/ {print} END {print "passed",p,"failed",f}'
