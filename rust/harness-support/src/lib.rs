//! Protocol, generic operations and monitors for generated-Rust harnesses.
//!
//! Ops take a JSON argument and return JSON; every op body runs under catch_unwind with a
//! panic hook that records message and location; a counting global allocator measures the
//! peak live bytes and the largest single request of each op.
use bytes::{BufMut, BytesMut};
use pdl_runtime::{DecodeError, EncodeError, Packet};
use serde::de::DeserializeOwned;
use serde::Serialize;
use serde_json::{json, Value};
use std::alloc::{GlobalAlloc, Layout, System};
use std::fmt::Debug;
use std::panic::{catch_unwind, AssertUnwindSafe};
use std::sync::atomic::{AtomicUsize, Ordering};
use std::sync::Mutex;

// ------------------------------------------------------------------ allocation monitor
pub struct CountingAlloc;
static LIVE: AtomicUsize = AtomicUsize::new(0);
static PEAK: AtomicUsize = AtomicUsize::new(0);
static LARGEST: AtomicUsize = AtomicUsize::new(0);
static CAP: AtomicUsize = AtomicUsize::new(usize::MAX);

fn over_cap(size: usize) -> ! {
    // allocation failure cannot be caught: leave a marker and abort; the parent attributes
    // the death to the open call.
    let msg = b"\n@@ALLOC-CAP-EXCEEDED@@\n";
    unsafe {
        libc_write(1, msg.as_ptr(), msg.len());
    }
    let _ = size;
    std::process::abort();
}

extern "C" {
    #[link_name = "write"]
    fn libc_write(fd: i32, buf: *const u8, n: usize) -> isize;
}

unsafe impl GlobalAlloc for CountingAlloc {
    unsafe fn alloc(&self, l: Layout) -> *mut u8 {
        let sz = l.size();
        if sz > CAP.load(Ordering::Relaxed) {
            over_cap(sz);
        }
        let p = System.alloc(l);
        if !p.is_null() {
            let live = LIVE.fetch_add(sz, Ordering::Relaxed) + sz;
            PEAK.fetch_max(live, Ordering::Relaxed);
            LARGEST.fetch_max(sz, Ordering::Relaxed);
        }
        p
    }
    unsafe fn dealloc(&self, p: *mut u8, l: Layout) {
        LIVE.fetch_sub(l.size(), Ordering::Relaxed);
        System.dealloc(p, l)
    }
    unsafe fn realloc(&self, p: *mut u8, l: Layout, new: usize) -> *mut u8 {
        if new > CAP.load(Ordering::Relaxed) {
            over_cap(new);
        }
        let q = System.realloc(p, l, new);
        if !q.is_null() {
            if new >= l.size() {
                let live = LIVE.fetch_add(new - l.size(), Ordering::Relaxed) + (new - l.size());
                PEAK.fetch_max(live, Ordering::Relaxed);
            } else {
                LIVE.fetch_sub(l.size() - new, Ordering::Relaxed);
            }
            LARGEST.fetch_max(new, Ordering::Relaxed);
        }
        q
    }
}

pub fn alloc_reset(cap: usize) -> usize {
    let live = LIVE.load(Ordering::Relaxed);
    PEAK.store(live, Ordering::Relaxed);
    LARGEST.store(0, Ordering::Relaxed);
    CAP.store(cap, Ordering::Relaxed);
    live
}

pub fn alloc_stats(base: usize) -> (usize, usize) {
    CAP.store(usize::MAX, Ordering::Relaxed);
    (PEAK.load(Ordering::Relaxed).saturating_sub(base), LARGEST.load(Ordering::Relaxed))
}

// ------------------------------------------------------------------ panic monitor
static LAST_PANIC: Mutex<Option<(String, String)>> = Mutex::new(None);

pub fn install_panic_hook() {
    std::panic::set_hook(Box::new(|info| {
        let loc = info
            .location()
            .map(|l| format!("{}:{}", l.file(), l.line()))
            .unwrap_or_else(|| "?".into());
        let msg = if let Some(s) = info.payload().downcast_ref::<&str>() {
            s.to_string()
        } else if let Some(s) = info.payload().downcast_ref::<String>() {
            s.clone()
        } else {
            "<non-string panic>".into()
        };
        *LAST_PANIC.lock().unwrap() = Some((loc, msg));
    }));
}

/// Run an op body under the panic monitor and the allocation monitor.
pub fn monitored(cap: usize, f: impl FnOnce() -> Value) -> Value {
    *LAST_PANIC.lock().unwrap() = None;
    let base = alloc_reset(cap);
    let r = catch_unwind(AssertUnwindSafe(f));
    let (peak, largest) = alloc_stats(base);
    let mut v = match r {
        Ok(v) => v,
        Err(_) => {
            let (loc, msg) =
                LAST_PANIC.lock().unwrap().take().unwrap_or(("?".into(), "?".into()));
            json!({"panic": {"loc": loc, "msg": msg}})
        }
    };
    if let Value::Object(m) = &mut v {
        m.insert("alloc_peak".into(), json!(peak));
        m.insert("alloc_largest".into(), json!(largest));
    }
    v
}

// ------------------------------------------------------------------ helpers
pub fn unhex(s: &str) -> Vec<u8> {
    let b = s.as_bytes();
    let mut out = Vec::with_capacity(b.len() / 2);
    let nib = |c: u8| -> u8 {
        match c {
            b'0'..=b'9' => c - b'0',
            b'a'..=b'f' => c - b'a' + 10,
            b'A'..=b'F' => c - b'A' + 10,
            _ => 0,
        }
    };
    let mut i = 0;
    while i + 1 < b.len() {
        out.push(nib(b[i]) << 4 | nib(b[i + 1]));
        i += 2;
    }
    out
}

pub fn hex(b: &[u8]) -> String {
    let mut s = String::with_capacity(b.len() * 2);
    for x in b {
        s.push_str(&format!("{:02x}", x));
    }
    s
}

pub fn to_json<T: Serialize>(v: &T) -> Value {
    serde_json::to_value(v).unwrap_or_else(|e| json!({"__serialize_error": e.to_string()}))
}

pub fn dec_err(e: &DecodeError) -> Value {
    let variant = match e {
        DecodeError::UnwrapError => "UnwrapError",
        DecodeError::FixedValueError { .. } => "FixedValueError",
        DecodeError::LengthError { .. } => "LengthError",
        DecodeError::ArraySizeError { .. } => "ArraySizeError",
        DecodeError::EnumValueError { .. } => "EnumValueError",
        DecodeError::ConstraintValueError { .. } => "ConstraintValueError",
        DecodeError::TrailingBytesError => "TrailingBytesError",
        DecodeError::TrailingBytesInArray { .. } => "TrailingBytesInArray",
    };
    json!({"err": variant, "detail": format!("{:?}", e)})
}

pub fn enc_err(e: &EncodeError) -> Value {
    let variant = match e {
        EncodeError::SizeOverflow { .. } => "SizeOverflow",
        EncodeError::CountOverflow { .. } => "CountOverflow",
        EncodeError::InvalidScalarValue { .. } => "InvalidScalarValue",
        EncodeError::InvalidArrayElementSize { .. } => "InvalidArrayElementSize",
        EncodeError::InconsistentConditionValue { .. } => "InconsistentConditionValue",
    };
    json!({"err": variant, "detail": format!("{:?}", e)})
}

pub trait Ty: Packet + Serialize + DeserializeOwned + Debug + PartialEq + Clone {}
impl<T: Packet + Serialize + DeserializeOwned + Debug + PartialEq + Clone> Ty for T {}

pub fn with_value<T: DeserializeOwned>(arg: &Value, f: impl FnOnce(&T) -> Value) -> Value {
    match serde_json::from_value::<T>(arg["value"].clone()) {
        Ok(v) => f(&v),
        Err(e) => json!({"deser_err": e.to_string()}),
    }
}

fn is_suffix(input: &[u8], rem: &[u8]) -> bool {
    let ip = input.as_ptr() as usize;
    let rp = rem.as_ptr() as usize;
    rem.len() <= input.len() && rp >= ip && rp + rem.len() == ip + input.len()
}

/// All decoding entry points side by side on one input.
pub fn op_dec<T: Ty>(arg: &Value) -> Value {
    let input = unhex(arg["hex"].as_str().unwrap_or(""));
    let mut out = serde_json::Map::new();
    // decode (allocation envelope measured around the decoder alone, not the JSON rendering)
    let live0 = LIVE.load(Ordering::Relaxed);
    PEAK.store(live0, Ordering::Relaxed);
    let d = T::decode(&input);
    let decode_peak = PEAK.load(Ordering::Relaxed).saturating_sub(live0);
    out.insert("decode_alloc_peak".into(), json!(decode_peak));
    match &d {
        Ok((v, rem)) => {
            out.insert(
                "decode".into(),
                json!({"ok": to_json(v), "rem": rem.len(), "suffix": is_suffix(&input, rem)}),
            );
        }
        Err(e) => {
            out.insert("decode".into(), dec_err(e));
        }
    }
    // decode_full
    let df = T::decode_full(&input);
    match &df {
        Ok(v) => {
            let same = match &d {
                Ok((v0, _)) => v0 == v,
                Err(_) => false,
            };
            let mut o = json!({"ok": to_json(v), "eq_decode": same});
            // canonical re-encoding and its promised length
            let el = v.encoded_len();
            match v.encode_to_vec() {
                Ok(b) => {
                    o["reenc"] = json!(hex(&b));
                    o["encoded_len"] = json!(el);
                }
                Err(e) => {
                    o["reenc_err"] = enc_err(&e);
                }
            }
            out.insert("decode_full".into(), o);
        }
        Err(e) => {
            let same_err = match &d {
                Err(e0) => e0 == e,
                Ok(_) => false,
            };
            let mut o = dec_err(e);
            o["eq_decode_err"] = json!(same_err);
            out.insert("decode_full".into(), o);
        }
    }
    // decode_mut
    let mut slice: &[u8] = &input;
    let before = (slice.as_ptr() as usize, slice.len());
    let dm = T::decode_mut(&mut slice);
    let after = (slice.as_ptr() as usize, slice.len());
    match &dm {
        Ok(v) => {
            let (same, rem_ok) = match &d {
                Ok((v0, rem)) => (v0 == v, rem.as_ptr() as usize == after.0 && rem.len() == after.1),
                Err(_) => (false, false),
            };
            out.insert(
                "decode_mut".into(),
                json!({"ok": true, "eq_decode": same, "slice_at_decode_rem": rem_ok, "rem": after.1}),
            );
        }
        Err(e) => {
            let same_err = match &d {
                Err(e0) => e0 == e,
                Ok(_) => false,
            };
            let mut o = dec_err(e);
            o["eq_decode_err"] = json!(same_err);
            o["slice_untouched"] = json!(before == after);
            out.insert("decode_mut".into(), o);
        }
    }
    Value::Object(out)
}

/// All encoding entry points side by side on one value.
pub fn op_enc<T: Ty>(arg: &Value) -> Value {
    with_value::<T>(arg, |v| {
        let mut out = serde_json::Map::new();
        out.insert("value".into(), to_json(v));
        let el = v.encoded_len();
        out.insert("encoded_len".into(), json!(el));
        let r1 = v.encode_to_vec();
        match &r1 {
            Ok(b) => {
                out.insert("to_vec".into(), json!({"ok": hex(b)}));
            }
            Err(e) => {
                out.insert("to_vec".into(), enc_err(e));
            }
        }
        let r2 = v.encode_to_bytes();
        match &r2 {
            Ok(b) => {
                out.insert("to_bytes".into(), json!({"ok": hex(b)}));
            }
            Err(e) => {
                out.insert("to_bytes".into(), enc_err(e));
            }
        }
        // encode into a caller's non-empty Vec
        let prefix: Vec<u8> = vec![0xA5, 0x5A, 0xC3, 0x3C, 0x00, 0xFF, 0x81];
        let mut buf = prefix.clone();
        let r3 = v.encode(&mut buf);
        match &r3 {
            Ok(()) => {
                let keeps = buf.len() >= prefix.len() && buf[..prefix.len()] == prefix[..];
                out.insert(
                    "into_vec".into(),
                    json!({"ok": hex(&buf[prefix.len().min(buf.len())..]), "prefix_kept": keeps}),
                );
            }
            Err(e) => {
                let mut o = enc_err(e);
                o["prefix_kept"] = json!(buf.len() >= prefix.len() && buf[..prefix.len()] == prefix[..]);
                out.insert("into_vec".into(), o);
            }
        }
        // encode into a caller's non-empty BytesMut
        let mut bm = BytesMut::new();
        bm.put_slice(&prefix);
        let r4 = v.encode(&mut bm);
        match &r4 {
            Ok(()) => {
                let keeps = bm.len() >= prefix.len() && bm[..prefix.len()] == prefix[..];
                out.insert(
                    "into_bytesmut".into(),
                    json!({"ok": hex(&bm[prefix.len().min(bm.len())..]), "prefix_kept": keeps}),
                );
            }
            Err(e) => {
                out.insert("into_bytesmut".into(), enc_err(e));
            }
        }
        // round trip
        if let Ok(b) = &r1 {
            // own panic scope: a panic while decoding belongs to the decoder, not to encode
            let rt = catch_unwind(AssertUnwindSafe(|| match T::decode_full(b) {
                Ok(w) => json!({"ok": to_json(&w), "eq": &w == v}),
                Err(e) => dec_err(&e),
            }));
            match rt {
                Ok(j) => {
                    out.insert("roundtrip".into(), j);
                }
                Err(_) => {
                    let (loc, msg) =
                        LAST_PANIC.lock().unwrap().take().unwrap_or(("?".into(), "?".into()));
                    out.insert("roundtrip".into(), json!({"panic": {"loc": loc, "msg": msg}}));
                }
            }
        }
        Value::Object(out)
    })
}

pub fn run_op<T: Ty>(op: &str, arg: &Value) -> Value {
    match op {
        "dec" => op_dec::<T>(arg),
        "enc" => op_enc::<T>(arg),
        _ => json!({"error": format!("unknown op {op}")}),
    }
}

/// result of a conversion between related packet types
pub fn conv_dec<T: Serialize>(r: Result<T, DecodeError>) -> Value {
    match r {
        Ok(v) => json!({"ok": to_json(&v)}),
        Err(e) => dec_err(&e),
    }
}

pub fn conv_any<T: Serialize, E: Debug>(r: Result<T, E>) -> Value {
    match r {
        Ok(v) => json!({"ok": to_json(&v)}),
        Err(e) => json!({"err": "EncodeError", "detail": format!("{:?}", e)}),
    }
}

// ------------------------------------------------------------------ enum scans
pub enum EnumProbe {
    OutOfBacking,
    Err(u64),
    Ok { name: String, back: u64, wide_ok: bool, json: Value },
}

/// Scan try_from over [lo, hi] (inclusive), run-length encoded.
/// Each run: [start, end, class] with class = "E" (rejected, error carries the input),
/// "E!" (rejected, error value differs from input), "B" (does not fit the backing type) or
/// "O:<VariantName>[:flags]" where flags mark failed laws: b = back-conversion != x,
/// w = some widening conversion != x, j = serde value != x.
pub fn enum_scan(arg: &Value, probe: impl Fn(u64) -> EnumProbe) -> Value {
    let lo = arg["lo"].as_u64().unwrap_or(0);
    let hi = arg["hi"].as_u64().unwrap_or(0);
    let mut runs: Vec<(u64, u64, String)> = vec![];
    let mut x = lo;
    loop {
        let class = match probe(x) {
            EnumProbe::OutOfBacking => "B".to_string(),
            EnumProbe::Err(v) => if v == x { "E".to_string() } else { "E!".to_string() },
            EnumProbe::Ok { name, back, wide_ok, json } => {
                let variant = name.split('(').next().unwrap_or("").to_string();
                let mut flags = String::new();
                if back != x {
                    flags.push('b');
                }
                if !wide_ok {
                    flags.push('w');
                }
                if json.as_u64() != Some(x) {
                    flags.push('j');
                }
                if flags.is_empty() { format!("O:{variant}") } else { format!("O:{variant}:{flags}") }
            }
        };
        match runs.last_mut() {
            Some((_, e, c)) if *c == class && *e + 1 == x => *e = x,
            _ => runs.push((x, x, class)),
        }
        if x == hi {
            break;
        }
        x += 1;
    }
    json!({"runs": runs.iter().map(|(s, e, c)| json!([s, e, c])).collect::<Vec<_>>()})
}

// ------------------------------------------------------------------ main loop
pub fn serve(dispatch: impl Fn(&str, &str, &str, &Value) -> Value) {
    use std::io::{BufRead, Write};
    install_panic_hook();
    let stdin = std::io::stdin();
    let stdout = std::io::stdout();
    for line in stdin.lock().lines() {
        let Ok(line) = line else { break };
        if line.is_empty() {
            continue;
        }
        let req: Value = match serde_json::from_str(&line) {
            Ok(v) => v,
            Err(e) => {
                let mut o = stdout.lock();
                let _ = writeln!(o, "{}", json!({"error": e.to_string()}));
                let _ = o.flush();
                continue;
            }
        };
        let d = req["d"].as_str().unwrap_or("").to_string();
        let t = req["t"].as_str().unwrap_or("").to_string();
        let op = req["op"].as_str().unwrap_or("").to_string();
        let cap = req["cap"].as_u64().map(|c| c as usize).unwrap_or(usize::MAX);
        let t0 = std::time::Instant::now();
        let mut resp = monitored(cap, || dispatch(&d, &t, &op, &req));
        if let Value::Object(m) = &mut resp {
            m.insert("id".into(), req["id"].clone());
            m.insert("ns".into(), json!(t0.elapsed().as_nanos() as u64));
        }
        let mut o = stdout.lock();
        let _ = writeln!(o, "{}", resp);
        let _ = o.flush();
    }
}
