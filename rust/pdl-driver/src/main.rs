//! In-process front-end service for google/pdl: JSON lines on stdin -> JSON lines on stdout.
//! Every stage runs under catch_unwind; a panic is reported as data with its location.
use codespan_reporting::term::termcolor;
use pdl_compiler::{analyzer, ast, backends, parser};
use serde_json::{json, Value};
use std::io::{BufRead, Write};
use std::panic::{catch_unwind, AssertUnwindSafe};
use std::sync::Mutex;

static LAST_PANIC: Mutex<Option<(String, String)>> = Mutex::new(None);

fn install_hook() {
    std::panic::set_hook(Box::new(|info| {
        let loc = info
            .location()
            .map(|l| format!("{}:{}", l.file(), l.line()))
            .unwrap_or_else(|| "?".to_string());
        let msg = if let Some(s) = info.payload().downcast_ref::<&str>() {
            s.to_string()
        } else if let Some(s) = info.payload().downcast_ref::<String>() {
            s.clone()
        } else {
            "<non-string panic payload>".to_string()
        };
        *LAST_PANIC.lock().unwrap() = Some((loc, msg));
    }));
}

fn guarded<T>(f: impl FnOnce() -> T) -> Result<T, Value> {
    *LAST_PANIC.lock().unwrap() = None;
    match catch_unwind(AssertUnwindSafe(f)) {
        Ok(v) => Ok(v),
        Err(_) => {
            let (loc, msg) = LAST_PANIC
                .lock()
                .unwrap()
                .take()
                .unwrap_or(("?".to_string(), "?".to_string()));
            Err(json!({"panic": {"loc": loc, "msg": msg}}))
        }
    }
}

fn size_json(s: analyzer::Size) -> Value {
    match s {
        analyzer::Size::Static(n) => json!({"static": n}),
        analyzer::Size::Dynamic => json!("dynamic"),
        analyzer::Size::Unknown => json!("unknown"),
    }
}

fn diag_json(d: &codespan_reporting::diagnostic::Diagnostic<ast::FileId>) -> Value {
    json!({
        "severity": format!("{:?}", d.severity),
        "code": d.code,
        "message": d.message,
        "notes": d.notes,
        "labels": d.labels.iter().map(|l| json!({
            "style": format!("{:?}", l.style),
            "file": l.file_id,
            "start": l.range.start,
            "end": l.range.end,
            "message": l.message,
        })).collect::<Vec<_>>(),
    })
}

fn filter_declarations(file: ast::File, exclude: &[String], include: &[String]) -> ast::File {
    ast::File {
        declarations: file
            .declarations
            .into_iter()
            .filter(|decl| {
                decl.id()
                    .map(|id| {
                        if include.is_empty() {
                            !exclude.contains(&id.to_owned())
                        } else {
                            include.contains(&id.to_owned())
                        }
                    })
                    .unwrap_or(true)
            })
            .collect(),
        ..file
    }
}

fn schema_json(file: &ast::File) -> Value {
    let schema = analyzer::Schema::new(file);
    let scope = analyzer::Scope::new(file);
    let mut decls = serde_json::Map::new();
    for decl in &file.declarations {
        let Some(id) = decl.id() else { continue };
        let mut fields = vec![];
        for field in decl.fields() {
            let mut f = json!({
                "field_size": size_json(schema.field_size(field.key)),
                "padded_size": schema.padded_size(field.key),
            });
            if let (ast::FieldDesc::Array { .. }, Ok(scope)) = (&field.desc, &scope) {
                let es = match analyzer::element_size(scope, &schema, decl, field) {
                    analyzer::ElementSize::Static(n) => json!({"static": n}),
                    analyzer::ElementSize::Dynamic => json!("dynamic"),
                    analyzer::ElementSize::Unknown => json!("unknown"),
                };
                let asz = match analyzer::array_size(decl, field) {
                    analyzer::ArraySize::StaticCount(n) => json!({"static_count": n}),
                    analyzer::ArraySize::DynamicCount => json!("dynamic_count"),
                    analyzer::ArraySize::DynamicSize => json!("dynamic_size"),
                    analyzer::ArraySize::Unknown => json!("unknown"),
                };
                f["element_size"] = es;
                f["array_size"] = asz;
            }
            fields.push(f);
        }
        decls.insert(
            id.to_string(),
            json!({
                "decl_size": size_json(schema.decl_size(decl.key)),
                "parent_size": size_json(schema.parent_size(decl.key)),
                "payload_size": size_json(schema.payload_size(decl.key)),
                "total_size": size_json(schema.total_size(decl.key)),
                "fields": fields,
            }),
        );
    }
    Value::Object(decls)
}

fn dir_listing(dir: &std::path::Path, base: &std::path::Path, out: &mut Vec<(String, String)>) {
    let mut entries: Vec<_> = match std::fs::read_dir(dir) {
        Ok(rd) => rd.filter_map(|e| e.ok()).collect(),
        Err(_) => return,
    };
    entries.sort_by_key(|e| e.path());
    for e in entries {
        let p = e.path();
        if p.is_dir() {
            dir_listing(&p, base, out);
        } else if let Ok(text) = std::fs::read_to_string(&p) {
            out.push((p.strip_prefix(base).unwrap().to_string_lossy().to_string(), text));
        }
    }
}

fn handle(req: &Value) -> Value {
    let src = req["src"].as_str().unwrap_or("").to_string();
    let name = req["name"].as_str().unwrap_or("input.pdl").to_string();
    let ops: Vec<String> = req["ops"]
        .as_array()
        .map(|a| a.iter().filter_map(|v| v.as_str().map(String::from)).collect())
        .unwrap_or_default();
    let strs = |k: &str| -> Vec<String> {
        req[k]
            .as_array()
            .map(|a| a.iter().filter_map(|v| v.as_str().map(String::from)).collect())
            .unwrap_or_default()
    };
    let exclude = strs("exclude");
    let include = strs("include");
    let custom_fields = strs("custom_fields");
    let want = |o: &str| ops.iter().any(|x| x == o);
    let mut out = serde_json::Map::new();
    out.insert("id".into(), req["id"].clone());

    let mut sources = ast::SourceDatabase::new();
    let parsed = guarded(|| parser::parse_inline(&mut sources, &name, src.clone()));
    let file = match parsed {
        Err(p) => {
            out.insert("parse".into(), p);
            return Value::Object(out);
        }
        Ok(Err(diag)) => {
            // render the parser diagnostic like pdlc does
            let rendered = guarded(|| {
                let mut buf = termcolor::Buffer::no_color();
                let config = codespan_reporting::term::Config::default();
                let r = codespan_reporting::term::emit_to_write_style(&mut buf, &config, &sources, &diag);
                (r.is_ok(), String::from_utf8_lossy(buf.as_slice()).to_string())
            });
            let mut v = json!({"err": diag_json(&diag)});
            match rendered {
                Ok((ok, text)) => {
                    v["emit_ok"] = json!(ok);
                    v["emit_len"] = json!(text.len());
                }
                Err(p) => v["emit"] = p,
            }
            out.insert("parse".into(), v);
            return Value::Object(out);
        }
        Ok(Ok(file)) => file,
    };
    if want("parse") {
        out.insert("parse".into(), json!({"ok": serde_json::to_value(&file).unwrap_or(Value::Null)}));
    } else {
        out.insert("parse".into(), json!({"ok": true}));
    }
    if want("gen:json") {
        match guarded(|| backends::json::generate(&file)) {
            Ok(Ok(s)) => out.insert("gen:json".into(), json!({"ok": s})),
            Ok(Err(e)) => out.insert("gen:json".into(), json!({"err": e})),
            Err(p) => out.insert("gen:json".into(), p),
        };
    }
    let need_analysis = ops.iter().any(|o| o != "parse" && o != "gen:json");
    if !need_analysis {
        return Value::Object(out);
    }
    let file = if exclude.is_empty() && include.is_empty() {
        file
    } else {
        filter_declarations(file, &exclude, &include)
    };
    let analyzed = match guarded(|| analyzer::analyze(&file)) {
        Err(p) => {
            out.insert("analyze".into(), p);
            return Value::Object(out);
        }
        Ok(Err(diags)) => {
            let list: Vec<Value> = diags.diagnostics.iter().map(diag_json).collect();
            if req["emit"].as_bool() == Some(false) {
                out.insert("analyze".into(), json!({"err": list, "emit_skipped": true}));
                return Value::Object(out);
            }
            let emitted = guarded(|| {
                let mut buf = termcolor::Buffer::no_color();
                let r = diags.emit(&sources, &mut buf);
                (r.map_err(|e| format!("{e:?}")), String::from_utf8_lossy(buf.as_slice()).to_string())
            });
            let mut v = json!({"err": list});
            match emitted {
                Ok((Ok(()), text)) => {
                    v["emit_ok"] = json!(true);
                    v["emit_text"] = json!(text);
                }
                Ok((Err(e), text)) => {
                    v["emit_ok"] = json!(false);
                    v["emit_err"] = json!(e);
                    v["emit_text"] = json!(text);
                }
                Err(p) => {
                    v["emit"] = p;
                }
            }
            out.insert("analyze".into(), v);
            return Value::Object(out);
        }
        Ok(Ok(f)) => f,
    };
    out.insert("analyze".into(), json!({"ok": true}));
    if want("analyzed") {
        out.insert("analyzed".into(), serde_json::to_value(&analyzed).unwrap_or(Value::Null));
    }
    if want("schema") {
        match guarded(|| schema_json(&analyzed)) {
            Ok(v) => out.insert("schema".into(), v),
            Err(p) => out.insert("schema".into(), p),
        };
    }
    let repeat = req["repeat"].as_u64().unwrap_or(1).max(1);
    for op in &ops {
        let Some(backend) = op.strip_prefix("gen:") else { continue };
        if backend == "json" {
            continue;
        }
        let mut results: Vec<Value> = vec![];
        for _ in 0..repeat {
            let r = match backend {
                "rust" => guarded(|| Ok(backends::rust::generate(&sources, &analyzed, &custom_fields))),
                "python" => guarded(|| {
                    Ok(backends::python::generate(
                        &sources,
                        &analyzed,
                        custom_fields.first().map(String::as_str),
                        &exclude,
                    ))
                }),
                "cxx" => guarded(|| {
                    Ok(backends::cxx::generate(
                        &sources,
                        &analyzed,
                        req["namespace"].as_str(),
                        &strs("include_header"),
                        &strs("using_namespace"),
                        &exclude,
                    ))
                }),
                "java" => guarded(|| {
                    let dir = std::path::PathBuf::from(
                        req["java_dir"].as_str().unwrap_or("/nonexistent/pdl-driver-java"),
                    );
                    let _ = std::fs::remove_dir_all(&dir);
                    let package = req["java_package"].as_str().unwrap_or("pkg").to_string();
                    backends::java::generate(&sources, &analyzed, &custom_fields, &dir, &package)?;
                    let mut files = vec![];
                    dir_listing(&dir, &dir, &mut files);
                    let mut s = String::new();
                    for (n, t) in files {
                        s.push_str(&format!("//// FILE {n}\n{t}\n"));
                    }
                    Ok::<String, String>(s)
                }),
                _ => Ok(Err(format!("unknown backend {backend}"))),
            };
            results.push(match r {
                Ok(Ok(s)) => json!({"ok": s}),
                Ok(Err(e)) => json!({"err": e}),
                Err(p) => p,
            });
        }
        if repeat == 1 {
            out.insert(op.clone(), results.pop().unwrap());
        } else {
            let first = results[0].clone();
            let all_same = results.iter().all(|r| *r == first);
            out.insert(op.clone(), json!({"first": first, "repeat": repeat, "all_same": all_same}));
        }
    }
    Value::Object(out)
}

fn main() {
    install_hook();
    let stdin = std::io::stdin();
    let stdout = std::io::stdout();
    for line in stdin.lock().lines() {
        let Ok(line) = line else { break };
        if line.trim().is_empty() {
            continue;
        }
        let resp = match serde_json::from_str::<Value>(&line) {
            Ok(req) => handle(&req),
            Err(e) => json!({"error": format!("bad request: {e}")}),
        };
        let mut o = stdout.lock();
        let _ = writeln!(o, "{}", resp);
        let _ = o.flush();
    }
}
