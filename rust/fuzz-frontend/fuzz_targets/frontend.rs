//! Coverage-guided workload for C10: source text -> parse -> analyze -> every backend, each stage
//! under catch_unwind. A panic is *recorded* (stage, location, message, input digest) in the
//! event log named by PV_FUZZ_LOG and the run goes on, so one known defect does not mask the
//! rest; the Python side judges the log against known_findings. Hangs, stack overflows and
//! out-of-memory are left to libFuzzer's own monitors (-timeout, -rss_limit_mb, signal handlers).
#![no_main]
use libfuzzer_sys::fuzz_target;
use pdl_compiler::{analyzer, ast, backends, parser};
use std::io::Write;
use std::panic::{self, AssertUnwindSafe};
use std::sync::{Mutex, Once};

static INIT: Once = Once::new();
static LAST: Mutex<Option<(String, String)>> = Mutex::new(None);
static SEEN: Mutex<Vec<String>> = Mutex::new(Vec::new());

fn stage<T>(name: &str, data: &[u8], f: impl FnOnce() -> T) -> Option<T> {
    *LAST.lock().unwrap() = None;
    match panic::catch_unwind(AssertUnwindSafe(f)) {
        Ok(v) => Some(v),
        Err(_) => {
            let (loc, msg) = LAST.lock().unwrap().take().unwrap_or_default();
            let key = format!("{name}|{loc}|{}", msg.chars().take(120).collect::<String>());
            let mut seen = SEEN.lock().unwrap();
            if !seen.contains(&key) {
                seen.push(key);
                if let Ok(path) = std::env::var("PV_FUZZ_LOG") {
                    if let Ok(mut fh) = std::fs::OpenOptions::new().create(true).append(true).open(path) {
                        let hex: String = data.iter().map(|b| format!("{b:02x}")).collect();
                        let esc = |s: &str| s.replace('\\', "\\\\").replace('"', "\\\"").replace('\n', " ");
                        let _ = writeln!(
                            fh,
                            "{{\"stage\":\"{}\",\"loc\":\"{}\",\"msg\":\"{}\",\"input_hex\":\"{}\"}}",
                            name, esc(&loc), esc(&msg.chars().take(300).collect::<String>()), hex
                        );
                    }
                }
            }
            None
        }
    }
}

fuzz_target!(|data: &[u8]| {
    INIT.call_once(|| {
        // replace libfuzzer-sys' abort-on-panic hook: panics are events here, not crashes
        panic::set_hook(Box::new(|info| {
            let loc = info.location().map(|l| format!("{}:{}", l.file(), l.line())).unwrap_or_default();
            let msg = if let Some(s) = info.payload().downcast_ref::<&str>() {
                s.to_string()
            } else if let Some(s) = info.payload().downcast_ref::<String>() {
                s.clone()
            } else {
                "?".to_string()
            };
            *LAST.lock().unwrap() = Some((loc, msg));
        }));
    });
    let Ok(text) = std::str::from_utf8(data) else { return };
    if text.len() > 65536 {
        return;
    }
    let mut sources = ast::SourceDatabase::new();
    let Some(parsed) = stage("parse", data, || parser::parse_inline(&mut sources, "fuzz.pdl", text.to_owned())) else {
        return;
    };
    let Ok(file) = parsed else { return };
    let Some(analyzed) = stage("analyze", data, || analyzer::analyze(&file)) else { return };
    let Ok(file) = analyzed else { return };
    stage("gen:json", data, || backends::json::generate(&file));
    // the other backends are outside the verdict (construct sets) and 100x slower under ASan:
    // only on request, as extra evidence
    if std::env::var_os("PV_FUZZ_BACKENDS").is_none() {
        return;
    }
    let none: Vec<String> = vec![];
    stage("gen:rust", data, || backends::rust::generate(&sources, &file, &none));
    stage("gen:python", data, || backends::python::generate(&sources, &file, None, &none));
    stage("gen:cxx", data, || backends::cxx::generate(&sources, &file, None, &none, &none, &none));
});
