#!/usr/bin/env python3
"""Reach of the description generator inside the compiler: builds pdlc with -Cinstrument-coverage
(nightly toolchain, own target dir), runs it over the corpus a tier would use (every backend that
supports the description, both endiannesses), merges the profiles and reports per anchored source
file the line coverage and the uncovered line ranges.

  tools_coverage.py [--tier quick|thorough] [--seeds 1,2,3] [--show file-substring]

Diagnostic only (never a verdict): it tells which generator arms the workload never drives, i.e.
where a change could hide from every execution-based check. Output: work/coverage/<tier>.json"""
import argparse
import json
import os
import shutil
import subprocess
import sys
from concurrent.futures import ThreadPoolExecutor

sys.path.insert(0, os.path.dirname(os.path.abspath(__file__)))
from pv import corpus, gen  # noqa: E402

VERIF = os.path.dirname(os.path.abspath(__file__))
REPO = os.environ.get("VERIF_REPO", "/repo")
WORK = os.path.join(VERIF, "work", "coverage")
TC = os.path.expanduser("~/.rustup/toolchains/nightly-x86_64-unknown-linux-gnu/lib/rustlib/x86_64-unknown-linux-gnu/bin")
FILES = ["backends/rust/decoder.rs", "backends/rust/encoder.rs", "backends/rust/mod.rs", "backends/rust/types.rs",
         "backends/python.rs", "backends/cxx.rs", "backends/java/", "backends/common/alignment.rs", "backends/json.rs",
         "analyzer.rs", "parser.rs", "ast.rs"]


def build():
    env = dict(os.environ, CARGO_NET_OFFLINE="true", RUSTFLAGS="-Cinstrument-coverage -Awarnings")
    subprocess.run(["cargo", "+nightly", "build", "--offline", "-q", "--bin", "pdlc", "--features", "java",
                    "--manifest-path", os.path.join(REPO, "pdl-compiler", "Cargo.toml"),
                    "--target-dir", os.path.join(WORK, "target")], env=env, check=True)
    return os.path.join(WORK, "target", "debug", "pdlc")


def main():
    ap = argparse.ArgumentParser()
    ap.add_argument("--tier", default="quick")
    ap.add_argument("--seeds", default="1")
    ap.add_argument("--show", default="")
    ap.add_argument("--extra", nargs="*", default=[], help="extra .pdl files to run")
    a = ap.parse_args()
    os.makedirs(WORK, exist_ok=True)
    exe = build()
    prof = os.path.join(WORK, "prof")
    shutil.rmtree(prof, ignore_errors=True)
    os.makedirs(prof)
    src = os.path.join(WORK, "src")
    shutil.rmtree(src, ignore_errors=True)
    os.makedirs(src)
    n = 10 if a.tier == "thorough" else 2
    jobs = []
    for s in [int(x) for x in a.seeds.split(",")]:
        for d in corpus.descriptions(s, n):
            p = os.path.join(src, "s%d-%s.pdl" % (s, d["name"]))
            open(p, "w").write(d["text"])
            sup = gen.supported_by(d["features"])
            for fmt in ("json", "rust", "python", "cxx", "java"):
                if fmt == "json" or fmt in sup:
                    jobs.append((p, fmt))
    for p in a.extra:
        for fmt in ("json", "rust", "python", "cxx", "java"):
            jobs.append((p, fmt))

    def run(job):
        p, fmt = job
        i = abs(hash(job)) % (1 << 30)
        env = dict(os.environ, LLVM_PROFILE_FILE=os.path.join(prof, "p-%d-%%p.profraw" % i))
        cmd = [exe, "--output-format", fmt]
        if fmt == "java":
            od = os.path.join(WORK, "javaout", str(i))
            os.makedirs(od, exist_ok=True)
            cmd += ["--output-dir", od, "--java-package", "x.y"]
        r = subprocess.run(cmd + [p], env=env, stdout=subprocess.DEVNULL, stderr=subprocess.PIPE)
        return r.returncode

    with ThreadPoolExecutor(16) as ex:
        rcs = list(ex.map(run, jobs))
    shutil.rmtree(os.path.join(WORK, "javaout"), ignore_errors=True)
    print("runs: %d, non-zero exits: %d" % (len(rcs), sum(1 for r in rcs if r)))
    merged = os.path.join(WORK, "merged.profdata")
    lst = os.path.join(WORK, "files.txt")
    with open(lst, "w") as f:
        for fn in os.listdir(prof):
            f.write(os.path.join(prof, fn) + "\n")
    subprocess.run([os.path.join(TC, "llvm-profdata"), "merge", "-sparse", "-f", lst, "-o", merged], check=True)
    shutil.rmtree(prof, ignore_errors=True)
    out = subprocess.run([os.path.join(TC, "llvm-cov"), "export", "-format=lcov", "-instr-profile", merged, exe],
                         stdout=subprocess.PIPE, check=True).stdout.decode()
    cov = {}
    cur = None
    for line in out.split("\n"):
        if line.startswith("SF:"):
            cur = line[3:]
            cov[cur] = {}
        elif line.startswith("DA:") and cur:
            ln, cnt = line[3:].split(",")[:2]
            cov[cur][int(ln)] = max(cov[cur].get(int(ln), 0), int(cnt))
    report = {}
    for path, lines in sorted(cov.items()):
        if "/pdl-compiler/src/" not in path:
            continue
        rel = path.split("/pdl-compiler/src/")[1]
        if not any(rel.startswith(f) for f in FILES):
            continue
        # drop #[cfg(test)] tails: heuristically, lines after "mod test" in the file
        try:
            text = open(path).read().split("\n")
        except OSError:
            text = []
        cut = next((i + 1 for i, l in enumerate(text) if l.startswith("mod test") or l.startswith("#[cfg(test)]")), 10 ** 9)
        ls = {k: v for k, v in lines.items() if k < cut}
        unc = sorted(k for k, v in ls.items() if v == 0)
        ranges = []
        for k in unc:
            if ranges and k == ranges[-1][1] + 1:
                ranges[-1][1] = k
            else:
                ranges.append([k, k])
        report[rel] = {"lines": len(ls), "covered": len(ls) - len(unc), "uncovered_ranges": ranges}
        print("%-40s %5d/%5d  %5.1f%%" % (rel, len(ls) - len(unc), len(ls), 100.0 * (len(ls) - len(unc)) / max(1, len(ls))))
        if a.show and a.show in rel:
            for lo, hi in ranges:
                for k in range(lo, hi + 1):
                    print("   %5d | %s" % (k, text[k - 1] if k - 1 < len(text) else ""))
                print("   -----")
    with open(os.path.join(WORK, a.tier + ".json"), "w") as f:
        json.dump(report, f, indent=1)


if __name__ == "__main__":
    main()
