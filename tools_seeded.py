#!/usr/bin/env python3
"""Evaluate a candidate seeded change: tools_seeded.py <dir with patch.diff, demo.sh> <property id> [check ids...]
 1. scratch worktree of /repo HEAD outside /repo and /verif; apply the patch
 2. pinned suite must still pass there
 3. demo.sh must fail on the patched tree and pass on the unchanged /repo
 4. run the named checks (default: the property's own) with VERIF_REPO=<scratch>, report exit codes and VIOLATION lines
 5. remove the worktree and every build directory derived from it"""
import hashlib, json, os, shutil, subprocess, sys, time

def sh(cmd, **kw):
    p = subprocess.run(cmd, shell=True, stdout=subprocess.PIPE, stderr=subprocess.STDOUT, text=True, **kw)
    return p.returncode, p.stdout

def main():
    d, pid = os.path.abspath(sys.argv[1]), sys.argv[2]
    checks = sys.argv[3:] or [pid]
    tier = os.environ.get("SEED_TIER", "quick")
    wt = "/tmp/ev/%s" % os.path.basename(d.rstrip("/"))
    sh("git -C /repo worktree remove --force %s" % wt)
    shutil.rmtree(wt, ignore_errors=True)
    os.makedirs("/tmp/ev", exist_ok=True)
    rc, out = sh("git -C /repo worktree add -q --detach %s HEAD" % wt)
    assert rc == 0, out
    report = {"property": pid, "dir": d}
    try:
        rc, out = sh("git -C %s apply %s/patch.diff" % (wt, d))
        report["applies"] = rc == 0
        if rc:
            report["apply_output"] = out[-800:]
            print(json.dumps(report, indent=1))
            return report
        rc, out = sh("/verif/tools_suite.sh %s" % wt)
        report["suite"] = out.strip().split("\n")[-1]
        if os.path.exists(os.path.join(d, "demo.sh")):
            rc1, o1 = sh("bash %s/demo.sh %s" % (d, wt), timeout=1800)
            rc0, o0 = sh("bash %s/demo.sh /repo" % d, timeout=1800)
            report["demo_on_patched_rc"] = rc1
            report["demo_on_clean_rc"] = rc0
            report["demo_patched_tail"] = o1[-400:]
        for c in checks:
            t0 = time.time()
            rc, out = sh("cd /verif && VERIF_REPO=%s VERIF_TIER=%s ./verif check %s --tier %s" % (wt, tier, c, tier), timeout=7200)
            lines = [l for l in out.split("\n") if l.startswith(("VIOLATION", "INCONCLUSIVE", c + ":"))]
            report["check_" + c] = {"rc": rc, "wall": round(time.time() - t0), "lines": [l[:300] for l in lines][:12]}
            # keep the replays of this run for inspection
    finally:
        tag = "alt-" + hashlib.sha1(os.path.abspath(wt).encode()).hexdigest()[:10]
        for p in ("target-" + tag, "target-" + tag + "-rs", "driver-" + tag, os.path.join("rs", tag), os.path.join("py", tag),
                  os.path.join("cxx", tag), os.path.join("java", tag), "fuzz-" + tag):
            shutil.rmtree(os.path.join("/verif/work", p), ignore_errors=True)
        sh("git -C /repo worktree remove --force %s" % wt)
        shutil.rmtree(wt, ignore_errors=True)
        # evidence files were rewritten by the runs against the scratch tree: restore
        sh("cd /verif && git checkout -- evidence 2>/dev/null")
    print(json.dumps(report, indent=1))
    return report

if __name__ == "__main__":
    main()
