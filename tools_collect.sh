#!/bin/bash
# collect a finished seeded change from its scratch directory: tools_collect.sh <id> ...
for id in "$@"; do
  d=/tmp/seed/$id
  mkdir -p /verif/seeded/$id
  cp -r $d/out/* /verif/seeded/$id/
  git -C $d/tree diff > $d/cur.diff
  if cmp -s $d/cur.diff /verif/seeded/$id/patch.diff; then echo "$id: patch == tree diff"; else echo "$id: PATCH DIFFERS FROM TREE DIFF"; fi
  git -C /repo worktree remove --force $d/tree && rm -rf $d
done
