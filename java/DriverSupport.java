// Static support code of the generated Java harness driver (pv/engines/java.py).
// The engine prepends a `package ...;` line and writes it next to the generated classes as
// PvSupport.java, so the file deliberately has no package declaration of its own.
//
// Protocol: one flat JSON object per stdin line (string / number members only), one JSON
// object per stdout line. Every Throwable raised while a request is handled is reported as
// {"exc": <class>, "msg": ...}; the process only ends at end of input.

import java.io.BufferedReader;
import java.io.FileDescriptor;
import java.io.FileOutputStream;
import java.io.InputStreamReader;
import java.io.PrintStream;
import java.nio.charset.StandardCharsets;
import java.util.HashMap;
import java.util.Map;

final class PvSupport {
    private PvSupport() {}

    interface Handler {
        void handle(Map<String, String> req, StringBuilder out) throws Throwable;
    }

    /** Raised by the driver itself (unknown type, bad request): never a backend event. */
    static final class HarnessError extends RuntimeException {
        HarnessError(String m) { super(m); }
    }

    static void serve(Handler h) throws Exception {
        PrintStream out = new PrintStream(new FileOutputStream(FileDescriptor.out), false, "UTF-8");
        // nothing but protocol lines may reach stdout
        System.setOut(System.err);
        BufferedReader in = new BufferedReader(new InputStreamReader(System.in, StandardCharsets.UTF_8), 1 << 16);
        StringBuilder sb = new StringBuilder(1 << 12);
        String line;
        while ((line = in.readLine()) != null) {
            if (line.isEmpty()) continue;
            sb.setLength(0);
            try {
                Map<String, String> req = parseFlat(line);
                h.handle(req, sb);
            } catch (Throwable t) {
                sb.setLength(0);
                if (sb.capacity() > (1 << 22)) sb = new StringBuilder(1 << 12);
                sb.append('{');
                exc(sb, "exc", "msg", t);
                sb.append('}');
            }
            out.print(sb);
            out.print('\n');
            out.flush();
            if (sb.capacity() > (1 << 22)) sb = new StringBuilder(1 << 12);
        }
    }

    /** "exc":"<class>","msg":"...","at":"<top frame>" (no braces). */
    static void exc(StringBuilder sb, String kexc, String kmsg, Throwable t) {
        String msg;
        try { msg = t.getMessage(); } catch (Throwable u) { msg = null; }
        jstr(sb, kexc); sb.append(':'); jstr(sb, t.getClass().getName());
        sb.append(','); jstr(sb, kmsg); sb.append(':');
        if (msg == null) sb.append("null"); else jstr(sb, msg.length() > 600 ? msg.substring(0, 600) : msg);
        try {
            StackTraceElement[] st = t.getStackTrace();
            if (st != null && st.length > 0) {
                sb.append(",\"at\":");
                jstr(sb, st[0].getClassName() + "." + st[0].getMethodName() + ":" + st[0].getLineNumber());
            }
        } catch (Throwable u) { /* no frame */ }
        if (t instanceof HarnessError) sb.append(",\"harness\":true");
    }

    // ------------------------------------------------------------------ flat JSON reader
    static Map<String, String> parseFlat(String s) {
        Map<String, String> m = new HashMap<>();
        int n = s.length();
        int i = skip(s, 0);
        if (i >= n || s.charAt(i) != '{') throw new HarnessError("request is not an object");
        i = skip(s, i + 1);
        if (i < n && s.charAt(i) == '}') return m;
        StringBuilder tmp = new StringBuilder();
        while (true) {
            i = skip(s, i);
            if (i >= n || s.charAt(i) != '"') throw new HarnessError("expected member name at " + i);
            i = str(s, i, tmp);
            String key = tmp.toString();
            i = skip(s, i);
            if (i >= n || s.charAt(i) != ':') throw new HarnessError("expected ':' at " + i);
            i = skip(s, i + 1);
            if (i >= n) throw new HarnessError("truncated request");
            if (s.charAt(i) == '"') {
                i = str(s, i, tmp);
                m.put(key, tmp.toString());
            } else {
                int j = i;
                while (j < n && s.charAt(j) != ',' && s.charAt(j) != '}') j++;
                m.put(key, s.substring(i, j).trim());
                i = j;
            }
            i = skip(s, i);
            if (i >= n) throw new HarnessError("truncated request");
            char c = s.charAt(i);
            if (c == ',') { i++; continue; }
            if (c == '}') return m;
            throw new HarnessError("unexpected character at " + i);
        }
    }

    private static int skip(String s, int i) {
        while (i < s.length() && Character.isWhitespace(s.charAt(i))) i++;
        return i;
    }

    private static int str(String s, int i, StringBuilder out) {
        out.setLength(0);
        i++;
        int n = s.length();
        while (i < n) {
            char c = s.charAt(i++);
            if (c == '"') return i;
            if (c == '\\') {
                if (i >= n) break;
                char e = s.charAt(i++);
                switch (e) {
                    case 'n': out.append('\n'); break;
                    case 't': out.append('\t'); break;
                    case 'r': out.append('\r'); break;
                    case 'b': out.append('\b'); break;
                    case 'f': out.append('\f'); break;
                    case 'u':
                        out.append((char) Integer.parseInt(s.substring(i, i + 4), 16));
                        i += 4;
                        break;
                    default: out.append(e);
                }
            } else {
                out.append(c);
            }
        }
        throw new HarnessError("unterminated string");
    }

    // ------------------------------------------------------------------ JSON writer
    static void jstr(StringBuilder sb, String s) {
        if (s == null) { sb.append("null"); return; }
        sb.append('"');
        for (int i = 0; i < s.length(); i++) {
            char c = s.charAt(i);
            switch (c) {
                case '"': sb.append("\\\""); break;
                case '\\': sb.append("\\\\"); break;
                case '\n': sb.append("\\n"); break;
                case '\r': sb.append("\\r"); break;
                case '\t': sb.append("\\t"); break;
                default:
                    if (c < 0x20 || c > 0x7e) {
                        sb.append("\\u");
                        String h = Integer.toHexString(c);
                        for (int k = h.length(); k < 4; k++) sb.append('0');
                        sb.append(h);
                    } else {
                        sb.append(c);
                    }
            }
        }
        sb.append('"');
    }

    // unsigned rendering; the overload is chosen by the static type of the generated getter
    static void u(StringBuilder sb, boolean v) { sb.append(v ? '1' : '0'); }
    static void u(StringBuilder sb, byte v) { sb.append(Byte.toUnsignedInt(v)); }
    static void u(StringBuilder sb, short v) { sb.append(Short.toUnsignedInt(v)); }
    static void u(StringBuilder sb, int v) { sb.append(Integer.toUnsignedLong(v)); }
    static void u(StringBuilder sb, long v) { sb.append(Long.toUnsignedString(v)); }

    static void ua(StringBuilder sb, boolean[] a) {
        if (a == null) { sb.append("null"); return; }
        sb.append('[');
        for (int i = 0; i < a.length; i++) { if (i > 0) sb.append(','); u(sb, a[i]); }
        sb.append(']');
    }
    static void ua(StringBuilder sb, byte[] a) {
        if (a == null) { sb.append("null"); return; }
        sb.append('[');
        for (int i = 0; i < a.length; i++) { if (i > 0) sb.append(','); u(sb, a[i]); }
        sb.append(']');
    }
    static void ua(StringBuilder sb, short[] a) {
        if (a == null) { sb.append("null"); return; }
        sb.append('[');
        for (int i = 0; i < a.length; i++) { if (i > 0) sb.append(','); u(sb, a[i]); }
        sb.append(']');
    }
    static void ua(StringBuilder sb, int[] a) {
        if (a == null) { sb.append("null"); return; }
        sb.append('[');
        for (int i = 0; i < a.length; i++) { if (i > 0) sb.append(','); u(sb, a[i]); }
        sb.append(']');
    }
    static void ua(StringBuilder sb, long[] a) {
        if (a == null) { sb.append("null"); return; }
        sb.append('[');
        for (int i = 0; i < a.length; i++) { if (i > 0) sb.append(','); u(sb, a[i]); }
        sb.append(']');
    }

    // ------------------------------------------------------------------ hex and bulk literals
    static String hex(byte[] b) {
        char[] c = new char[b.length * 2];
        final String d = "0123456789abcdef";
        for (int i = 0; i < b.length; i++) {
            c[2 * i] = d.charAt((b[i] >> 4) & 15);
            c[2 * i + 1] = d.charAt(b[i] & 15);
        }
        return new String(c);
    }

    static byte[] unhex(String... parts) {
        int n = 0;
        for (String p : parts) n += p.length();
        if ((n & 1) != 0) throw new HarnessError("odd hex length");
        byte[] out = new byte[n / 2];
        int k = 0;
        int hi = -1;
        for (String p : parts) {
            for (int i = 0; i < p.length(); i++) {
                int d = Character.digit(p.charAt(i), 16);
                if (d < 0) throw new HarnessError("bad hex digit");
                if (hi < 0) { hi = d; } else { out[k++] = (byte) ((hi << 4) | d); hi = -1; }
            }
        }
        return out;
    }

    /** Big arrays are spelled as fixed-width big-endian hex (16 digits per element). */
    static long[] longs(String... parts) {
        byte[] b = unhex(parts);
        long[] out = new long[b.length / 8];
        for (int i = 0; i < out.length; i++) {
            long v = 0;
            for (int j = 0; j < 8; j++) v = (v << 8) | (b[8 * i + j] & 0xffL);
            out[i] = v;
        }
        return out;
    }
    static int[] ints(String... parts) {
        long[] l = longs(parts);
        int[] out = new int[l.length];
        for (int i = 0; i < l.length; i++) out[i] = (int) l[i];
        return out;
    }
    static short[] shorts(String... parts) {
        long[] l = longs(parts);
        short[] out = new short[l.length];
        for (int i = 0; i < l.length; i++) out[i] = (short) l[i];
        return out;
    }
    static byte[] bytes(String... parts) {
        long[] l = longs(parts);
        byte[] out = new byte[l.length];
        for (int i = 0; i < l.length; i++) out[i] = (byte) l[i];
        return out;
    }

    static long num(Map<String, String> req, String key) {
        String v = req.get(key);
        if (v == null) throw new HarnessError("missing member " + key);
        return Long.parseUnsignedLong(v);
    }
}
