#!/bin/bash
# evaluate seeded changes one after the other: tools_seedq.sh <id>:<prop>[:check,check] ...
cd /verif
for item in "$@"; do
  IFS=: read id prop checks <<< "$item"
  python3 tools_seeded.py seeded/$id $prop ${checks//,/ } > work/logs/seed-$id.json 2>&1
done
